//go:build verif

package commitlog

// C09 racing unit: Clean() applying retention while an appender adds messages
// and rolls new segments.  Three schedules:
//
//	gated: the cleaner is held at the k-th occurrence of a verifhook point
//	       inside the clean (after a segment was deleted, between the removal
//	       of its .log and .index, before the segment list is swapped) until
//	       the appender goroutine has appended n messages;
//	free:  the appender starts at the first hook point of the clean and runs
//	       freely, the handler injects microsecond delays;
//	early: the appender already runs when Clean() is called, so the clean's
//	       own snapshot is not known to the harness.
//
// Sizes of the segment that was the newest when the clean started can grow
// while the clean decides, so necessity / sufficiency are checked against
// sound envelopes (see c09RaceCheck).  The verifhook handler is process-global:
// cases run one at a time.

import (
	"fmt"
	"strings"
	"sync"
	"sync/atomic"
	"testing"
	"time"

	kit "github.com/liftbridge-io/liftbridge/internal/verifkit"
	"github.com/liftbridge-io/liftbridge/server/verifhook"
)

var c09HookPoints = []string{"clean.afterDeleteSeg", "segdelete.afterLogRemove", "clean.afterCleanSegments"}

func TestVerifC09Racing(t *testing.T) {
	rep := kit.NewReport("C09", "racing")
	defer rep.Write()
	defer c09InstallTTL()()
	defer verifhook.Set(nil)
	rep.SetRule("retention racing with an appender under -race: seeded layout and limits as in the seeded unit, then Clean() while (gated) the cleaner is held at the k-th occurrence of clean.afterDeleteSeg / segdelete.afterLogRemove / clean.afterCleanSegments until n messages were appended (rolling segments), (free) the appender runs freely from the first hook point on with injected microsecond delays, or (early) the appender already runs when Clean() is called; oracle: the surviving log is a gap-free offset range ending at the last appended offset, removed = a prefix of the segments that existed before, never the one that was newest, everything appended after the clean's snapshot is present, necessity and sufficiency against size envelopes; then a quiet Clean with the full sequential oracle; non-trivial = >=1 segment removed and >=1 segment rolled during the clean; distinct = layout + limits + schedule")
	rep.Assume("while a clean races with appends the segment that was newest at its start may grow between the cleaner's limit evaluations: necessity is checked with that segment's FINAL size (the largest it can have had), sufficiency with its size BEFORE the clean (the smallest), over the segments that existed when the clean started; segments rolled during the clean are not subject to this clean")
	rep.Assume("in the 'early' schedule the clean's snapshot is unknown: only 'gap-free suffix ending at the newest offset', 'newest segment kept', necessity with final sizes of the whole log and sufficiency over the pre-existing segments are checked")
	root := kit.NewRNG(kit.Mix(kit.Seed(), 0xC09C))
	ncases := kit.Scale(300, 1000)
	for i := 0; i < ncases && rep.NumViolations() < 12; i++ {
		c09RunRacing(rep, root.Fork(uint64(i)), i)
	}
}

type c09Gate struct {
	point string
	occ   int
	n     int
}

func c09RunRacing(rep *kit.Report, rng *kit.RNG, idx int) {
	maxSeg := int64(1)
	if rng.Chance(2, 5) {
		maxSeg = []int64{120, 300}[rng.Intn(2)]
	}
	ts := int64(1000)
	nb := rng.Range(2, 9)
	if maxSeg > 1 {
		nb = rng.Range(4, 20)
	}
	batches, planned := c09Plan(rng, maxSeg, &ts, nb, nil)
	lim := c09PickLimits(rng, planned)
	e, err := newC09Env(rep, "racing", maxSeg, lim)
	if err != nil {
		rep.Violation("C09:open-error", err.Error(), nil)
		return
	}
	defer e.close()
	for _, b := range batches {
		if !e.appendBatch(b.vlen, b.ts) {
			return
		}
	}
	e.setHW(e.next - 1)
	pre, ok := e.scan("before racing Clean")
	if !ok {
		return
	}
	n0 := e.next
	l := e.log

	mode := []string{"gated", "gated", "free", "early"}[rng.Intn(4)]
	var gates []c09Gate
	total := 0
	if mode == "gated" {
		for g := rng.Range(1, 3); g > 0; g-- {
			gt := c09Gate{point: c09HookPoints[rng.Intn(len(c09HookPoints))], occ: rng.Range(1, 3), n: rng.Range(1, 6)}
			if gt.point == "clean.afterCleanSegments" {
				gt.occ = 1
			}
			gates = append(gates, gt)
		}
	} else {
		total = rng.Range(3, 14)
	}
	// what the appender appends is planned up front (timestamps keep increasing)
	extra, _ := c09Plan(rng, maxSeg, &ts, 24, nil)
	flat := extra // one batch per Append call
	var (
		started      atomic.Bool
		startCh      = make(chan struct{})
		reqCh        = make(chan int)
		doneCh       = make(chan error, 1)
		hookMu       sync.Mutex
		hookRNG      = kit.NewRNG(rng.Uint64())
		occ          = map[string]int{}
		gateFired    int
		watchdog     atomic.Bool
		appenderBusy atomic.Bool
		appendErr    error
		appended     []vfRec // written by the appender goroutine, read after it is joined
		wg           sync.WaitGroup
	)
	isPoint := map[string]bool{}
	for _, p := range c09HookPoints {
		isPoint[p] = true
	}
	verifhook.Set(func(name string, args ...interface{}) error {
		if !isPoint[name] {
			return nil
		}
		hookMu.Lock()
		occ[name]++
		k := occ[name]
		var d time.Duration
		if mode != "gated" && hookRNG.Bool() {
			d = time.Duration(hookRNG.Intn(300)) * time.Microsecond
		}
		want := 0
		for _, g := range gates {
			if g.point == name && g.occ == k {
				want += g.n
			}
		}
		hookMu.Unlock()
		if started.CompareAndSwap(false, true) {
			close(startCh)
		}
		if want > 0 && !watchdog.Load() && !appenderBusy.Load() {
			// (a hook point reached from inside the appender's own Append is
			// never a gate: the cleaner is the goroutine being held)
			select {
			case reqCh <- want:
				select {
				case err := <-doneCh:
					if err == nil {
						hookMu.Lock()
						gateFired++
						hookMu.Unlock()
					}
				case <-time.After(60 * time.Second):
					watchdog.Store(true)
				}
			case <-time.After(60 * time.Second):
				watchdog.Store(true)
			}
		}
		if d > 0 {
			time.Sleep(d)
		}
		return nil
	})
	// appendSome appends about n messages, batch by batch, from the plan.
	next := n0
	bi := 0
	appendSome := func(n int) error {
		for n > 0 && bi < len(flat) {
			b := flat[bi]
			bi++
			msgs := make([]*Message, len(b.ts))
			recs := make([]vfRec, len(b.ts))
			for i := range msgs {
				recs[i] = c09Rec(next+int64(i), b.vlen, b.ts[i])
				msgs[i] = recs[i].msg()
			}
			offs, err := l.Append(msgs)
			if err != nil {
				return err
			}
			if offs[0] != next {
				return fmt.Errorf("Append returned offsets %v, expected to start at %d", offs, next)
			}
			appended = append(appended, recs...)
			next += int64(len(msgs))
			n -= len(msgs)
		}
		return nil
	}
	stop := make(chan struct{})
	earlyRunning := make(chan struct{})
	wg.Add(1)
	go func() {
		defer wg.Done()
		ar := kit.NewRNG(uint64(idx)*977 + 5)
		switch mode {
		case "gated":
			for {
				select {
				case n := <-reqCh:
					appenderBusy.Store(true)
					err := appendSome(n)
					appenderBusy.Store(false)
					if err != nil {
						appendErr = err
					}
					doneCh <- err
				case <-stop:
					return
				}
			}
		default:
			if mode == "free" {
				select {
				case <-startCh:
				case <-stop:
					return
				}
			} else {
				// early: make sure at least one batch is in before the clean is called
				if err := appendSome(1); err != nil {
					appendErr = err
					close(earlyRunning)
					return
				}
				close(earlyRunning)
			}
			for done := len(appended); done < total; done = len(appended) {
				if err := appendSome(1); err != nil {
					appendErr = err
					return
				}
				if ar.Bool() {
					time.Sleep(time.Duration(ar.Intn(200)) * time.Microsecond)
				}
			}
		}
	}()
	if mode == "early" {
		<-earlyRunning
	}
	sched := mode
	if mode == "gated" {
		var gs []string
		for _, g := range gates {
			gs = append(gs, fmt.Sprintf("%s#%d+%d", g.point, g.occ, g.n))
		}
		sched = "gated:" + strings.Join(gs, ",")
	}
	e.trace = append(e.trace, fmt.Sprintf("Clean%v || %s total=%d", pre, sched, total))
	cerr := l.Clean()
	if started.CompareAndSwap(false, true) {
		close(startCh)
	}
	verifhook.Set(nil)
	if mode == "gated" {
		close(stop)
	}
	if !c09WaitTimeout(&wg, 60*time.Second) {
		rep.Inconc(fmt.Sprintf("case %d: watchdog while waiting for the appender goroutine to finish", idx))
		return
	}
	if cerr != nil {
		e.fail("C09:clean-error", fmt.Sprintf("Clean racing with an appender failed: %v", cerr), nil)
		return
	}
	if appendErr != nil {
		e.fail("C09:append-error", fmt.Sprintf("Append racing with Clean failed: %v", appendErr), nil)
		return
	}
	if watchdog.Load() {
		rep.Inconc(fmt.Sprintf("case %d: watchdog while the cleaner waited for the gated appender", idx))
		return
	}
	for _, r := range appended {
		e.orig[r.Off] = r
	}
	e.next = next
	e.ts = ts
	e.cleans++
	post, ok := e.scan("after racing Clean")
	if !ok {
		return
	}
	k, rolled, ok := e.raceCheck(rng, pre, post, n0, mode == "early")
	if !ok {
		return
	}
	hookMu.Lock()
	for p, n := range occ {
		rep.Count("hook_"+p, int64(n))
	}
	rep.Count("gates_fired", int64(gateFired))
	hookMu.Unlock()
	rep.Count("schedule_"+mode, 1)
	rep.Count("appended_during_clean", int64(len(appended)))
	rep.Count("segments_rolled_during_clean", int64(rolled))
	rep.Count("segments_removed_by_racing_clean", int64(k))
	// a quiet clean afterwards: full sequential oracle on the resulting log
	e.setHW(e.next - 1)
	if _, ok := e.cleanAndCheck(rng, true); !ok {
		return
	}
	if idx < 3 {
		rep.Sample(e.replay(map[string]any{"removed_by_racing_clean": k, "rolled_during_clean": rolled}))
	}
	e.finish(fmt.Sprintf("%d|%s|%s", maxSeg, strings.Join(e.trace, " "), e.lim), k >= 1 && rolled >= 1)
}

// raceCheck is the oracle for a clean that raced with appends.  pre is the
// harness's scan before the clean (== the clean's snapshot unless early),
// post the scan after clean and appender have both finished, n0 the first
// offset appended by the racing appender.
func (e *c09Env) raceCheck(rng *kit.RNG, pre, post []c09Seg, n0 int64, early bool) (k, rolled int, ok bool) {
	wit := map[string]any{"segments_before": fmt.Sprint(pre), "segments_after": fmt.Sprint(post)}
	if len(post) == 0 {
		e.fail("C09:newest-removed", "no segment is left after a clean racing with appends", wit)
		return 0, 0, false
	}
	// the surviving log is a gap-free range of offsets ending at the newest offset
	var flat []vfRec
	for _, s := range post {
		flat = append(flat, s.Recs...)
	}
	for i, r := range flat {
		if i > 0 && r.Off != flat[i-1].Off+1 {
			e.fail("C09:race:gap", fmt.Sprintf("after a clean racing with appends the log has a gap between offsets %d and %d; segments %v", flat[i-1].Off, r.Off, post), wit)
			return 0, 0, false
		}
		if o, okk := e.orig[r.Off]; !okk || !vfSameRec(o, r) {
			e.fail("C09:survivor-changed", fmt.Sprintf("segment files hold %v, appended was %v", r, o), wit)
			return 0, 0, false
		}
	}
	if len(flat) == 0 || flat[len(flat)-1].Off != e.next-1 {
		e.fail("C09:race:tail-lost", fmt.Sprintf("after a clean racing with appends the log ends at %v, last appended offset is %d", c09Offs(flat), e.next-1), wit)
		return 0, 0, false
	}
	// which pre-existing segments survived: must be a suffix of pre
	postBase := map[int64]bool{}
	for _, s := range post {
		postBase[s.Base] = true
	}
	k = 0
	for k < len(pre) && !postBase[pre[k].Base] {
		k++
	}
	for i := k; i < len(pre); i++ {
		if !postBase[pre[i].Base] {
			e.fail("C09:not-a-suffix", fmt.Sprintf("segment base %d was removed although the older segment base %d was kept; before %v after %v", pre[i].Base, pre[k].Base, c09Bases(pre), c09Bases(post)), wit)
			return k, 0, false
		}
	}
	newBases := 0
	for _, s := range post {
		if s.Base > pre[len(pre)-1].Base {
			newBases++
		}
	}
	rolled = newBases
	e.removedSegs += k
	last := len(pre) - 1
	if !early {
		// the clean's snapshot is pre: its newest segment is never removed,
		// and everything appended since is present
		if k > last {
			e.fail("C09:newest-removed", fmt.Sprintf("the segment that was the newest when the clean started (base %d) was removed; before %v after %v", pre[last].Base, c09Bases(pre), c09Bases(post)), wit)
			return k, rolled, false
		}
		if flat[0].Off > n0 {
			e.fail("C09:race:appended-lost", fmt.Sprintf("messages appended while the clean ran are gone: first surviving offset %d, appended from %d", flat[0].Off, n0), wit)
			return k, rolled, false
		}
	}
	// NECESSITY with the largest sizes the cleaner can have seen
	if k > 0 {
		j := k - 1 // newest removed segment among those that existed before
		var env []c09Seg
		if early {
			// Unknown snapshot, and segments rolled by the appender may have
			// been in it and been removed too: bound what followed pre[j] by
			// EVERYTHING appended after it up to the end of the run.
			rest := c09Seg{Base: pre[j].LastOff + 1, LastTS: e.ts}
			for o := pre[j].LastOff + 1; o < e.next; o++ {
				rest.Count++
				rest.Bytes += 28 + int64(len(c09MsgBytes(e.orig[o])))
			}
			env = []c09Seg{pre[j], rest}
		} else {
			env = append(env, pre[j:last]...)
			fin := pre[last]
			for _, s := range post {
				if s.Base == fin.Base {
					fin = s
				}
			}
			env = append(env, fin)
		}
		if v := c09Violated(env, e.lim); len(v) == 0 {
			e.fail("C09:removed-more-than-needed:"+e.lim.kinds(),
				fmt.Sprintf("segment base %d was removed by a clean racing with appends although even with the largest sizes it can have seen the log from it on satisfies every configured limit (%s): %v", pre[j].Base, e.lim, env), wit)
		}
	}
	// SUFFICIENCY with the smallest sizes the cleaner can have seen
	if k < last {
		if v := c09Violated(pre[k:], e.lim); len(v) > 0 {
			e.fail("C09:limit-not-enforced:"+strings.Join(v, "+"),
				fmt.Sprintf("after a clean racing with appends the segments that existed before still violate %v (%s) with their pre-clean sizes: %v", v, e.lim, pre[k:]), wit)
		}
	}
	if got := e.log.OldestOffset(); got != flat[0].Off {
		e.fail("C09:oldest-offset", fmt.Sprintf("OldestOffset=%d after a racing Clean, first surviving offset is %d", got, flat[0].Off), wit)
	}
	if got := e.log.NewestOffset(); got != e.next-1 {
		e.fail("C09:newest-offset", fmt.Sprintf("NewestOffset=%d after a racing Clean, last appended offset is %d", got, e.next-1), wit)
	}
	e.checkReads(rng, pre, post, k, wit)
	return k, rolled, true
}

// c09WaitTimeout waits for wg with a watchdog (expiry = inconclusive, never a verdict).
func c09WaitTimeout(wg *sync.WaitGroup, d time.Duration) bool {
	ch := make(chan struct{})
	go func() { wg.Wait(); close(ch) }()
	select {
	case <-ch:
		return true
	case <-time.After(d):
		return false
	}
}
