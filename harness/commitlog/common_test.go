//go:build verif

package commitlog

// Shared helpers for the /verif commit-log harnesses (C01, C03, C05, C08,
// C09, C16).  Everything is prefixed vf to stay clear of the repository's own
// test helpers.  These files are overlaid into package commitlog at build
// time; they are never written into the repository.

import (
	"bytes"
	"context"
	"encoding/binary"
	"fmt"
	"hash/crc32"
	"hash/fnv"
	"os"
	"path/filepath"
	"sort"
	"strings"
	"time"

	kit "github.com/liftbridge-io/liftbridge/internal/verifkit"
)

// vfRec is the reference-model view of one stored message.
type vfRec struct {
	Off   int64
	Key   []byte
	Val   []byte
	Hdr   map[string][]byte
	TS    int64
	Epoch uint64
}

func (r vfRec) msg() *Message {
	return &Message{Key: r.Key, Value: r.Val, Headers: r.Hdr, Timestamp: r.TS, LeaderEpoch: r.Epoch}
}

func vfBytesDesc(b []byte) string {
	if b == nil {
		return "nil"
	}
	if len(b) <= 12 {
		return fmt.Sprintf("%q", b)
	}
	return fmt.Sprintf("[%dB %x..]", len(b), b[:6])
}

func (r vfRec) String() string {
	hk := make([]string, 0, len(r.Hdr))
	for k, v := range r.Hdr {
		hk = append(hk, fmt.Sprintf("%q:%s", k, vfBytesDesc(v)))
	}
	sort.Strings(hk)
	return fmt.Sprintf("{off=%d key=%s val=%s hdr={%s} ts=%d ep=%d}", r.Off, vfBytesDesc(r.Key), vfBytesDesc(r.Val),
		strings.Join(hk, ","), r.TS, r.Epoch)
}

// vfSameBytes distinguishes nil from empty.
func vfSameBytes(a, b []byte) bool {
	if (a == nil) != (b == nil) {
		return false
	}
	return bytes.Equal(a, b)
}

func vfSameRec(a, b vfRec) bool {
	if a.Off != b.Off || a.TS != b.TS || a.Epoch != b.Epoch {
		return false
	}
	if !vfSameBytes(a.Key, b.Key) || !vfSameBytes(a.Val, b.Val) {
		return false
	}
	if len(a.Hdr) != len(b.Hdr) {
		return false
	}
	for k, v := range a.Hdr {
		w, ok := b.Hdr[k]
		if !ok || !bytes.Equal(v, w) {
			return false
		}
	}
	return true
}

func (r vfRec) digest() uint64 {
	h := fnv.New64a()
	var b [8]byte
	put := func(x []byte) {
		if x == nil {
			h.Write([]byte{0xff})
		} else {
			binary.BigEndian.PutUint64(b[:], uint64(len(x)))
			h.Write(b[:])
			h.Write(x)
		}
	}
	binary.BigEndian.PutUint64(b[:], uint64(r.Off))
	h.Write(b[:])
	binary.BigEndian.PutUint64(b[:], uint64(r.TS))
	h.Write(b[:])
	binary.BigEndian.PutUint64(b[:], r.Epoch)
	h.Write(b[:])
	put(r.Key)
	put(r.Val)
	ks := make([]string, 0, len(r.Hdr))
	for k := range r.Hdr {
		ks = append(ks, k)
	}
	sort.Strings(ks)
	for _, k := range ks {
		put([]byte(k))
		put(r.Hdr[k])
	}
	return h.Sum64()
}

// vfDecode turns what a reader returned into a vfRec.  The decoding here is
// independent of SerializedMessage's accessors: it parses the wire layout
// documented in message.go (crc|magic|attrs|key|value|nheaders|headers...) so
// that a bug in the accessors is visible too; both views must agree.
func vfDecode(m SerializedMessage, off, ts int64, epoch uint64) (rec vfRec, err error) {
	defer func() {
		if p := recover(); p != nil {
			err = fmt.Errorf("decode panic: %v", p)
		}
	}()
	rec = vfRec{Off: off, TS: ts, Epoch: epoch}
	b := []byte(m)
	if len(b) < 16 {
		return rec, fmt.Errorf("message too short: %d", len(b))
	}
	if crc32.Checksum(b[4:], crc32.MakeTable(crc32.Castagnoli)) != binary.BigEndian.Uint32(b) {
		return rec, fmt.Errorf("crc mismatch")
	}
	n := 6
	rd := func() []byte {
		sz := int32(binary.BigEndian.Uint32(b[n:]))
		n += 4
		if sz == -1 {
			return nil
		}
		v := b[n : n+int(sz)]
		n += int(sz)
		if v == nil {
			v = []byte{}
		}
		return v
	}
	rec.Key = rd()
	rec.Val = rd()
	nh := int(binary.BigEndian.Uint16(b[n:]))
	n += 2
	if nh > 0 {
		rec.Hdr = map[string][]byte{}
	}
	for i := 0; i < nh; i++ {
		kl := int(binary.BigEndian.Uint16(b[n:]))
		n += 2
		k := string(b[n : n+kl])
		n += kl
		rec.Hdr[k] = rd()
	}
	if n != len(b) {
		return rec, fmt.Errorf("trailing bytes in message: parsed %d of %d", n, len(b))
	}
	// Cross-check with the package's accessors.
	if !vfSameBytes(m.Key(), rec.Key) || !vfSameBytes(m.Value(), rec.Val) {
		return rec, fmt.Errorf("accessor/decoder disagreement on key/value")
	}
	hs := m.Headers()
	if len(hs) != len(rec.Hdr) {
		return rec, fmt.Errorf("accessor/decoder disagreement on header count")
	}
	for k, v := range hs {
		if !bytes.Equal(rec.Hdr[k], v) {
			return rec, fmt.Errorf("accessor/decoder disagreement on header %q", k)
		}
	}
	return rec, nil
}

var vfCancelled = func() context.Context {
	ctx, cancel := context.WithCancel(context.Background())
	cancel()
	return ctx
}()

// vfDrain reads everything a forward reader can deliver *now*: the context is
// already cancelled, so a read that would have to wait returns an error.
// max bounds the loop (a reader that never ends is reported by the caller).
func vfDrain(r *Reader, max int) (recs []vfRec, err error) {
	defer func() {
		if p := recover(); p != nil {
			err = fmt.Errorf("reader panic: %v", p)
		}
	}()
	hb := make([]byte, 28)
	for i := 0; i < max; i++ {
		m, off, ts, ep, rerr := r.ReadMessage(vfCancelled, hb)
		if rerr != nil {
			return recs, nil
		}
		rec, derr := vfDecode(m, off, ts, ep)
		if derr != nil {
			return recs, fmt.Errorf("offset %d: %v", off, derr)
		}
		recs = append(recs, rec)
	}
	return recs, fmt.Errorf("reader did not end after %d messages", max)
}

// vfReadFrom opens a forward reader and drains it.  openErr is the error of
// NewReader (some start offsets legitimately have no reader).
func vfReadFrom(l *commitLog, start int64, uncommitted bool, max int) (recs []vfRec, openErr, err error) {
	defer func() {
		if p := recover(); p != nil {
			err = fmt.Errorf("NewReader panic: %v", p)
		}
	}()
	r, oerr := l.NewReader(start, uncommitted)
	if oerr != nil {
		return nil, oerr, nil
	}
	recs, err = vfDrain(r, max)
	return recs, nil, err
}

// vfReverseFrom drains a reverse reader (these never block).
func vfReverseFrom(l *commitLog, start int64, uncommitted bool, max int) (recs []vfRec, openErr, err error) {
	defer func() {
		if p := recover(); p != nil {
			err = fmt.Errorf("reverse reader panic: %v", p)
		}
	}()
	r, oerr := l.NewReverseReader(start, uncommitted)
	if oerr != nil {
		return nil, oerr, nil
	}
	hb := make([]byte, 28)
	for i := 0; i < max; i++ {
		m, off, ts, ep, rerr := r.ReadMessage(context.Background(), hb)
		if rerr != nil {
			return recs, nil, nil
		}
		rec, derr := vfDecode(m, off, ts, ep)
		if derr != nil {
			return recs, nil, fmt.Errorf("offset %d: %v", off, derr)
		}
		recs = append(recs, rec)
	}
	return recs, nil, fmt.Errorf("reverse reader did not end after %d messages", max)
}

// vfRawSegment is an independent sequential parse of one .log file.
type vfRawSegment struct {
	Base  int64
	File  string
	Recs  []vfRec
	Bytes int64
	// Trailing is the number of bytes after the last complete message.
	Trailing int64
}

// vfScanDir parses every NNN.log file of a log directory in base-offset order
// without using the index files.
func vfScanDir(dir string) ([]vfRawSegment, error) {
	ents, err := os.ReadDir(dir)
	if err != nil {
		return nil, err
	}
	var segs []vfRawSegment
	for _, e := range ents {
		if !strings.HasSuffix(e.Name(), ".log") {
			continue
		}
		var base int64
		if _, err := fmt.Sscanf(strings.TrimSuffix(e.Name(), ".log"), "%d", &base); err != nil {
			return nil, fmt.Errorf("bad segment name %s", e.Name())
		}
		b, err := os.ReadFile(filepath.Join(dir, e.Name()))
		if err != nil {
			return nil, err
		}
		seg := vfRawSegment{Base: base, File: e.Name(), Bytes: int64(len(b))}
		pos := 0
		for pos+28 <= len(b) {
			off := int64(binary.BigEndian.Uint64(b[pos:]))
			ts := int64(binary.BigEndian.Uint64(b[pos+8:]))
			ep := binary.BigEndian.Uint64(b[pos+16:])
			sz := int(int32(binary.BigEndian.Uint32(b[pos+24:])))
			if sz < 0 || pos+28+sz > len(b) {
				break
			}
			rec, derr := vfDecode(SerializedMessage(b[pos+28:pos+28+sz]), off, ts, ep)
			if derr != nil {
				return nil, fmt.Errorf("%s at byte %d: %v", e.Name(), pos, derr)
			}
			seg.Recs = append(seg.Recs, rec)
			pos += 28 + sz
		}
		seg.Trailing = int64(len(b) - pos)
		segs = append(segs, seg)
	}
	sort.Slice(segs, func(i, j int) bool { return segs[i].Base < segs[j].Base })
	return segs, nil
}

// vfOpts returns options with the background loops effectively disabled, so
// that only the harness decides when a checkpoint or a clean happens.
func vfOpts(dir string, maxSeg int64) Options {
	return Options{
		Path:                 dir,
		MaxSegmentBytes:      maxSeg,
		HWCheckpointInterval: 1000 * time.Hour,
		CleanerInterval:      1000 * time.Hour,
	}
}

func vfOpen(o Options) (*commitLog, error) {
	l, err := New(o)
	if err != nil {
		return nil, err
	}
	return l.(*commitLog), nil
}

func vfTempDir(tag string) string {
	base := os.Getenv("VERIF_WORK")
	if base == "" {
		base = os.TempDir()
	}
	d, err := os.MkdirTemp(base, "vf-"+tag+"-")
	if err != nil {
		panic(err)
	}
	return d
}

// vfGen generates message content.
type vfGen struct {
	rng   *kit.RNG
	ts    int64
	epoch uint64
	uniq  uint64
	// Large enables ~70 KiB values now and then.
	Large bool
}

func newVfGen(rng *kit.RNG) *vfGen { return &vfGen{rng: rng, ts: 1000, epoch: 1} }

func (g *vfGen) bytesOf(class int) []byte {
	switch class {
	case 0:
		return nil
	case 1:
		return []byte{}
	case 2:
		return []byte{byte('a' + g.rng.Intn(26))}
	case 3:
		return g.rng.Bytes(g.rng.Range(2, 20))
	case 4:
		return g.rng.Bytes(g.rng.Range(80, 130))
	default:
		return g.rng.Bytes(g.rng.Range(66000, 72000))
	}
}

func (g *vfGen) class() int {
	n := 5
	if g.Large && g.rng.Chance(1, 25) {
		return 5
	}
	return g.rng.Intn(n)
}

// next produces the next message (timestamps strictly increase, leader epochs
// never decrease).  Every value carries a unique tag unless it is nil/empty.
func (g *vfGen) next() vfRec {
	g.ts += int64(g.rng.Range(1, 5))
	if g.rng.Chance(1, 12) {
		g.epoch += uint64(g.rng.Range(1, 3))
	}
	g.uniq++
	r := vfRec{TS: g.ts, Epoch: g.epoch}
	r.Key = g.bytesOf(g.class())
	r.Val = g.bytesOf(g.class())
	if len(r.Val) >= 8 {
		binary.BigEndian.PutUint64(r.Val, g.uniq)
	}
	switch g.rng.Intn(6) {
	case 0:
		r.Hdr = map[string][]byte{} // empty, not nil: stored as "no headers"
	case 1:
		r.Hdr = map[string][]byte{"h": []byte("v")}
	case 2:
		r.Hdr = map[string][]byte{"": {}, "k2": g.rng.Bytes(g.rng.Range(0, 40)), "reply": []byte("x")}
	case 3:
		// a header without a value (a published protobuf map entry may omit it)
		r.Hdr = map[string][]byte{"novalue": nil, "h": []byte("v")}
	}
	return r
}

// vfNormHdr: the log stores no difference between a nil and an empty header
// map (count 0); the model normalises to nil.
func vfNormHdr(h map[string][]byte) map[string][]byte {
	if len(h) == 0 {
		return nil
	}
	return h
}

// vfReplicaBytes reads messages [from, from+n) of src with an uncommitted
// reader and returns them framed exactly as the replication protocol sends
// them to a follower (28-byte header + message, concatenated).
func vfReplicaBytes(src *commitLog, from int64, n int) ([]byte, error) {
	r, err := src.NewReader(from, true)
	if err != nil {
		return nil, err
	}
	var buf bytes.Buffer
	hb := make([]byte, 28)
	for i := 0; i < n; i++ {
		m, _, _, _, err := r.ReadMessage(vfCancelled, hb)
		if err != nil {
			return nil, fmt.Errorf("source log ended after %d of %d messages: %v", i, n, err)
		}
		buf.Write(hb)
		buf.Write(m)
	}
	return buf.Bytes(), nil
}
