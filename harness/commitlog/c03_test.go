//go:build verif

package commitlog

// C03 — consumers see only committed messages: all of them, once, in order.
//
// Many short concurrent runs under the race detector: one appender (batches,
// tiny segments so rolls are frequent), a goroutine calling
// checkAndPerformSplit (what the cleaner loop does), an HW advancer moving the
// high watermark by arbitrary steps <= newest (also 0 and backwards attempts),
// optional read-only toggles, and K committed readers created at arbitrary
// times and offsets.  Delay hooks widen the windows between "read hw" and
// "park", between the active-segment CAS and the segment-list append, and in
// reader creation.
//
// Online oracle per read: offset <= HighWatermark() sampled after the read
// (sound: the HW is monotone); content = f(seed, offset); per reader the
// offsets are consecutive from its effective start.  Bounded completeness:
// after writers stop and the final HW = H is set, every reader must deliver
// through H; a reader still parked in hwWaiters in that quiescent state is a
// lost wake-up (state predicate under the log's own lock — no timing).

import (
	"context"
	"fmt"
	"os"
	"runtime"
	"strings"
	"sync"
	"sync/atomic"
	"testing"
	"time"

	pkgErrors "github.com/pkg/errors"

	kit "github.com/liftbridge-io/liftbridge/internal/verifkit"
	"github.com/liftbridge-io/liftbridge/server/verifhook"
)

var c03Hb = &sync.Map{}

var (
	c03HookCtr   atomic.Uint64
	c03Parks     atomic.Int64
	c03SplitWins atomic.Int64
	c03DelayMode atomic.Int64 // 0 none, 1 yield, 2 short sleeps
)

func c03Hook(name string, args ...interface{}) error {
	switch name {
	case "reader.beforeWaitHW":
		c03Parks.Add(1)
	case "split.afterCAS":
		c03SplitWins.Add(1)
	case "reader.newCommitted.afterHW", "split.afterCreate", "split.beforeSeal":
	case "clean.afterCleanSegments":
		// fires on the goroutine that called Clean(): only cleaner goroutines
		// registered by a run react
		if v, ok := c03CleanRuns.Load(c03GoID()); ok {
			v.(*c03CleanRun).afterCleanSegments()
		}
		return nil
	default:
		return nil
	}
	mode := c03DelayMode.Load()
	if mode == 0 {
		return nil
	}
	x := kit.Mix(c03HookCtr.Add(1), 0xC03)
	switch {
	case mode == 1 || x%4 != 0:
		if x%2 == 0 {
			// yield
			time.Sleep(0)
		}
	default:
		time.Sleep(time.Duration(20+x%400) * time.Microsecond)
	}
	return nil
}

type c03Reader struct {
	id        int
	start     int64
	hwBefore  int64        // HW sampled before NewReader
	hwAfter   int64        // HW sampled after NewReader
	first     atomic.Int64 // first delivered offset (-1 none)
	next      atomic.Int64 // next expected offset
	hi        atomic.Int64 // upper end of the window for the first offset
	delivered atomic.Int64
	done      atomic.Bool
	excused   atomic.Bool // see the stuck-state predicate
	ctxReader contextReader
	mu        sync.Mutex
}

// c03Window: which first offsets are legal for NewReader(start, committed)
// given the HW sampled before and after the call.  start <= HW at creation
// => exactly start; start > HW at creation => "next committed message" =
// HW-at-creation + 1.
func c03Window(start, hwBefore, hwAfter int64) (lo, hi int64) {
	lo, hi = start, start
	if start > hwBefore {
		if start > hwAfter {
			lo, hi = hwBefore+1, hwAfter+1
		} else {
			lo, hi = hwBefore+1, start
		}
	}
	if lo < 0 {
		lo = 0
	}
	if hi < 0 {
		hi = 0
	}
	if lo > hi {
		lo = hi
	}
	return
}

func TestVerifC03Stress(t *testing.T) {
	rep := kit.NewReport("C03", "stress")
	defer rep.Write()
	rep.SetRule("concurrent runs under -race: 1 appender (batches 1..5, MaxSegmentBytes in {64,200,1000}), 1 goroutine calling checkAndPerformSplit, 1 HW advancer (steps anywhere <= newest, incl. 0 and lower values; in a third of the runs 2 concurrent advancers, as commit loop and RF=1 fast path are in the server: after SetHighWatermark(h) returned the HW must be >= h, >= what the caller saw before and <= the largest value requested), optional read-only toggles, K committed readers created at PRNG times/offsets (0, inside, =HW, HW+1, far beyond, on the empty log); 3 delay profiles at hook points; per read: offset <= HW sampled after, content f(seed,offset), consecutive per reader, HW samples monotone; after quiescence every reader must deliver through the final HW (parked-in-hwWaiters-while-pending = lost wake-up); non-trivial = run rolled >=3 segments, >=1 reader parked and >=1 reader was created beyond the HW; distinct = (segment size, messages, reader starts, profile)")
	rep.Assume("the HW is only moved to offsets <= newest offset (leader behaviour); a follower adopting a leader HW beyond its own log end is not part of this workload")
	verifhook.Set(c03Hook)
	defer verifhook.Set(nil)
	root := kit.NewRNG(kit.Mix(kit.Seed(), 0xC03))
	runs := kit.Scale(160, 2400)
	seeds := make([]uint64, runs)
	for i := range seeds {
		seeds[i] = root.Uint64()
	}
	// The delay profile is global (one hook handler per process), so runs of one
	// profile are executed together.
	per := runs / 3
	for profile := 0; profile < 3; profile++ {
		c03DelayMode.Store(int64(profile))
		lo, hi := profile*per, (profile+1)*per
		if profile == 2 {
			hi = runs
		}
		kit.Parallel(hi-lo, kit.Workers(), func(k int) {
			if rep.NumViolations() >= 6 {
				return
			}
			c03Run(rep, lo+k, seeds[lo+k], profile, false, c03Extra{})
		})
	}
	rep.Count("reader_parks_at_hook", c03Parks.Load())
	rep.Count("split_cas_wins", c03SplitWins.Load())
	rep.Count("runs_with_two_concurrent_hw_writers", c03TwoAdv.Load())
}

var c03TwoAdv atomic.Int64

func c03Run(rep *kit.Report, idx int, seed uint64, profile int, follower bool, ex c03Extra) {
	rng := kit.NewRNG(seed)
	maxSeg := []int64{64, 200, 1000}[rng.Intn(3)]
	total := int64(rng.Range(80, kit.Scale(260, 420)))
	nread := rng.Range(3, 8)
	withRO := rng.Chance(1, 4) && !follower
	if ex.maxSeg != 0 {
		maxSeg = ex.maxSeg
	}
	if ex.maxTotal != 0 && total > ex.maxTotal {
		total = ex.maxTotal - int64(rng.Intn(30))
	}
	ex.trunc = ex.trunc && follower
	isExtra := ex.clean != 0 || ex.trunc || ex.maxSeg != 0
	if ex.st == nil {
		ex.st = &c03ExtraStats{}
	}
	dir := vfTempDir("c03")
	defer os.RemoveAll(dir)
	l, err := vfOpen(ex.opts(dir, maxSeg))
	if err != nil {
		rep.Violation("C03:harness-open", err.Error(), nil)
		return
	}
	defer l.Close()
	witness := func() map[string]any {
		w := map[string]any{"run": idx, "run_seed": seed, "maxSegmentBytes": maxSeg, "messages": total, "readers": nread, "readonly_toggles": withRO, "delay_profile": profile, "follower_mode": follower}
		if isExtra {
			w["cleaner_passes"] = c03CleanNames[ex.clean]
			w["tail_truncations"] = ex.trunc
		}
		return w
	}
	var runFailed atomic.Bool
	fail := func(fp, what string) {
		runFailed.Store(true)
		if !strings.Contains(fp, c03StaleHWTag) {
			c03NewViol.Add(1)
		}
		rep.Violation(fp, what, witness())
	}
	// passSeq / truncSeq are odd while a cleaner pass / a truncation of this
	// run is in flight.
	var passSeq, truncSeq atomic.Int64
	var cleanerDone atomic.Bool

	var appended atomic.Int64 // number of messages appended so far
	var writerDone atomic.Bool
	var finalSet atomic.Bool
	H := total - 1
	ctx, cancel := context.WithCancel(context.Background())
	defer cancel()
	var wg sync.WaitGroup

	// appender
	wg.Add(1)
	go func() {
		defer wg.Done()
		defer writerDone.Store(true)
		r := kit.NewRNG(seed ^ 0xA)
		follCur := int64(-1)
		defer func() {
			if follower {
				// the final response carries the final HW
				l.SetHighWatermark(H)
				finalSet.Store(true)
			}
		}()
		truncs := 0
		for next := int64(0); next < total; {
			if ex.trunc && truncs < 12 && next > 0 && r.Chance(1, 5) {
				// What a follower does on a leader change: cut the uncommitted
				// tail (always above the HW) and fetch it again.  This goroutine
				// is the only HW writer and the only appender, so hw and newest
				// are exact here.
				hw, newest := l.HighWatermark(), next-1
				if newest > hw {
					t := hw + 1 + int64(r.Intn(int(newest-hw)))
					if r.Chance(1, 8) {
						t = newest + 1 // nothing to cut
					}
					nsegBefore := len(l.Segments())
					truncSeq.Add(1)
					err := l.Truncate(t)
					truncSeq.Add(1)
					if err != nil {
						fail("C03:truncate-error", fmt.Sprintf("Truncate(%d) with HW=%d newest=%d failed: %v", t, hw, newest, err))
						return
					}
					if got := l.NewestOffset(); got != t-1 {
						fail("C03:truncate-result", fmt.Sprintf("after Truncate(%d) (HW=%d, newest before %d) the newest offset is %d, expected %d", t, hw, newest, got, t-1))
						return
					}
					if got := l.HighWatermark(); got != hw {
						fail("C03:hw-not-monotone", fmt.Sprintf("Truncate(%d) above the HW moved the HW from %d to %d", t, hw, got))
						return
					}
					truncs++
					ex.st.truncs.Add(1)
					if t <= newest {
						ex.st.truncCut.Add(1)
						if len(l.Segments()) < nsegBefore {
							ex.st.truncSegsDropped.Add(1)
						}
					}
					next = t
					appended.Store(next)
				}
			}
			n := int64(r.Range(1, 5))
			if next+n > total {
				n = total - next
			}
			msgs := make([]*Message, n)
			for k := int64(0); k < n; k++ {
				msgs[k] = ex.content(seed, next+k).msg()
			}
			var offs []int64
			var err error
			if follower {
				// What a follower's replication loop does with a response:
				// adopt the leader's HW, then append the message set.  The
				// leader's HW lies anywhere between the previous HW and the
				// leader's log end, which may be beyond this batch.
				lhw := follCur
				x := r.Intn(6)
				if ex.trunc && r.Chance(1, 3) {
					x = 0 // leader HW lags: the uncommitted tail grows
				}
				switch {
				case x == 0:
				case x < 4:
					lhw = next + int64(r.Intn(int(n)+1)) - 1
				default:
					lhw = next + n - 1 + int64(r.Intn(4))
				}
				if lhw > H {
					lhw = H
				}
				if lhw > follCur {
					follCur = lhw
				}
				_ = follCur
				ms, _, merr := newMessageSetFromProto(next, 0, msgs, false)
				if merr != nil {
					fail("C03:harness-msgset", merr.Error())
					return
				}
				offs, err = l.AppendMessageSet(ms)
				if r.Chance(1, 3) {
					time.Sleep(time.Duration(r.Intn(200)) * time.Microsecond)
				}
				// partition.handleReplicationResponse adopts the leader HW after
				// the append, capped at the local log end (the real handler is
				// exercised by the followerpath unit in package server)
				if newest := l.NewestOffset(); lhw > newest {
					lhw = newest
				}
				l.SetHighWatermark(lhw)
			} else {
				offs, err = l.Append(msgs)
			}
			if err == ErrCommitLogReadonly {
				time.Sleep(50 * time.Microsecond)
				continue
			}
			if err != nil {
				fail("C03:append-error", fmt.Sprintf("Append failed: %v", err))
				return
			}
			if offs[0] != next {
				fail("C03:append-offset", fmt.Sprintf("Append returned %v, expected from %d", offs, next))
				return
			}
			next += n
			appended.Store(next)
			if r.Chance(1, 3) {
				time.Sleep(time.Duration(r.Intn(150)) * time.Microsecond)
			}
		}
	}()
	// split ticker
	stopAux := make(chan struct{})
	var auxWg sync.WaitGroup
	auxWg.Add(1)
	go func() {
		defer auxWg.Done()
		for {
			select {
			case <-stopAux:
				return
			default:
			}
			if _, err := l.checkAndPerformSplit(); err != nil {
				fail("C03:split-error", fmt.Sprintf("checkAndPerformSplit: %v", err))
				return
			}
			time.Sleep(80 * time.Microsecond)
		}
	}()
	// HW advancer(s).  With one advancer it is the only HW writer, so its own
	// samples must be monotone and exactly what it set.  In a third of the runs
	// TWO advancers run concurrently (in the server the commit loop and the
	// RF=1 fast path of the message loop both call SetHighWatermark): then
	// after SetHighWatermark(h) has returned the HW must be >= h, >= anything
	// this advancer saw before, and <= the largest value anybody asked for.
	// Not in follower mode: there the replication loop (the appender above) is
	// the only HW writer.
	twoAdv := !follower && rng.Chance(1, 3)
	var maxReq atomic.Int64
	maxReq.Store(-1)
	advancer := func(id uint64) {
		defer wg.Done()
		if follower {
			return
		}
		r := kit.NewRNG(seed ^ 0xB ^ (id << 8))
		cur := int64(-1)
		seen := int64(-1)
		for {
			n := appended.Load() - 1
			done := writerDone.Load()
			if done {
				n = appended.Load() - 1
			}
			if twoAdv && cur < seen {
				cur = seen // the other advancer moved it
			}
			var h int64
			switch x := r.Intn(10); {
			case n < 0:
				h = -1
			case x == 0:
				h = cur // step 0
			case x == 1 && cur > 0:
				h = cur - int64(r.Range(1, 3)) // backwards attempt: must be ignored
			case x < 5:
				h = n // jump to the end
			default:
				if n > cur {
					h = cur + 1 + int64(r.Intn(int(n-cur)))
				} else {
					h = cur
				}
			}
			if done {
				h = n
			}
			for {
				m := maxReq.Load()
				if h <= m || maxReq.CompareAndSwap(m, h) {
					break
				}
			}
			l.SetHighWatermark(h)
			if h > cur {
				cur = h
			}
			got := l.HighWatermark()
			hi := maxReq.Load()
			if !twoAdv {
				if got != cur {
					fail("C03:hw-not-monotone", fmt.Sprintf("after SetHighWatermark(%d) the HW is %d, expected %d (single HW writer)", h, got, cur))
					return
				}
			} else if got < h || got < seen || got > hi {
				fail("C03:hw-not-monotone:two-writers", fmt.Sprintf("two concurrent HW writers: after SetHighWatermark(%d) returned the HW reads %d (this writer saw %d before; largest value requested by anybody so far %d)", h, got, seen, hi))
				return
			}
			seen = got
			if done && got == n {
				finalSet.Store(true)
				return
			}
			if twoAdv && r.Chance(1, 2) {
				runtime.Gosched()
			} else {
				time.Sleep(time.Duration(r.Intn(300)) * time.Microsecond)
			}
		}
	}
	wg.Add(1)
	go advancer(0)
	if twoAdv {
		c03TwoAdv.Add(1)
		wg.Add(1)
		go advancer(1)
	}
	// read-only toggler
	if withRO {
		auxWg.Add(1)
		go func() {
			defer auxWg.Done()
			r := kit.NewRNG(seed ^ 0xC)
			for {
				select {
				case <-stopAux:
					l.SetReadonly(false)
					return
				default:
				}
				time.Sleep(time.Duration(200+r.Intn(1500)) * time.Microsecond)
				l.SetReadonly(true)
				time.Sleep(time.Duration(r.Intn(300)) * time.Microsecond)
				l.SetReadonly(false)
			}
		}()
	}
	// cleaner passes (what cleanerLoop does on its ticker whenever a retention
	// limit or compaction is configured), concurrent with the appender that
	// rolls segments and with the committed readers.
	if ex.clean != 0 {
		auxWg.Add(1)
		go func() {
			defer auxWg.Done()
			defer cleanerDone.Store(true)
			cs := &c03CleanRun{l: l, writerDone: &writerDone, st: ex.st}
			gid := c03GoID()
			c03CleanRuns.Store(gid, cs)
			defer c03CleanRuns.Delete(gid)
			r := kit.NewRNG(seed ^ 0xD)
			passes := 0
			for {
				select {
				case <-stopAux:
					return
				default:
				}
				cs.n0 = len(l.Segments())
				// a compaction pass is long by itself (one segment creation per
				// sealed segment)
				cs.widen = ex.clean != c03CleanCompact && r.Chance(1, 2)
				passSeq.Add(1)
				err := l.Clean()
				passSeq.Add(1)
				if err != nil {
					fail("C03:clean-error", fmt.Sprintf("Clean() (%s) failed while appends/reads were running: %v", c03CleanNames[ex.clean], err))
					return
				}
				ex.st.passes.Add(1)
				if grown := len(l.Segments()) - cs.n0; grown >= 2 || cs.grownInPass >= 2 {
					ex.st.passes2Rolls.Add(1)
				}
				cs.grownInPass = 0
				if ex.clean == c03CleanCompact {
					// every pass rewrites every sealed segment: a handful per run
					if passes++; passes >= 5 {
						return
					}
					time.Sleep(time.Duration(500+r.Intn(3000)) * time.Microsecond)
				} else {
					time.Sleep(time.Duration(r.Intn(600)) * time.Microsecond)
				}
			}
		}()
	}

	// readers
	readers := make([]*c03Reader, nread)
	var rwg sync.WaitGroup
	var beyond, onEmpty atomic.Int64
	for k := 0; k < nread; k++ {
		rd := &c03Reader{id: k}
		rd.first.Store(-1)
		rd.hi.Store(1 << 60)
		readers[k] = rd
		rr := rng.Fork(uint64(100 + k))
		rwg.Add(1)
		go func() {
			defer rwg.Done()
			defer rd.done.Store(true)
			defer func() {
				if p := recover(); p != nil {
					detail := ""
					rd.mu.Lock()
					if cr, ok := rd.ctxReader.(*committedReader); ok && cr != nil {
						segBase, hwBase, segPos := int64(-1), int64(-1), int64(-1)
						if cr.seg != nil {
							segBase, segPos = cr.seg.BaseOffset, cr.seg.Position()
						}
						if cr.hwSeg != nil {
							hwBase = cr.hwSeg.BaseOffset
						}
						detail = fmt.Sprintf("reader state: seg.base=%d seg.size=%d pos=%d hwSeg.base=%d hwPos=%d hw=%d; log HW=%d newest=%d segments=%d",
							segBase, segPos, cr.pos, hwBase, cr.hwPos, cr.hw, l.HighWatermark(), l.NewestOffset(), len(l.Segments()))
					}
					rd.mu.Unlock()
					if c03Hb != nil {
						if hbv, ok := c03Hb.Load(rd); ok {
							hb := hbv.([]byte)
							detail += fmt.Sprintf("; header buffer: offset=%d ts=%d epoch=%d size=%d", int64(encoding.Uint64(hb[0:])), int64(encoding.Uint64(hb[8:])), encoding.Uint64(hb[16:]), encoding.Uint32(hb[24:]))
						}
					}
					if segs, err := vfScanDir(dir); err == nil {
						for _, sg := range segs {
							pos := int64(0)
							for _, r := range sg.Recs {
								_ = r
								pos++
							}
							detail += fmt.Sprintf("; file %s: %d msgs, %d bytes, trailing %d", sg.File, len(sg.Recs), sg.Bytes, sg.Trailing)
						}
					} else {
						detail += "; raw scan: " + err.Error()
					}
					fail("C03:reader-panic", fmt.Sprintf("committed reader(start=%d, delivered %d, next %d) panicked: %v; %s", rd.start, rd.delivered.Load(), rd.next.Load(), p, detail))
				}
			}()
			// creation time
			switch rr.Intn(4) {
			case 0: // immediately (often on the empty log)
			default:
				target := int64(rr.Intn(int(total)))
				for appended.Load() < target && ctx.Err() == nil {
					time.Sleep(30 * time.Microsecond)
				}
			}
			hw0 := l.HighWatermark()
			var start int64
			switch rr.Intn(7) {
			case 0:
				start = 0
			case 1:
				start = hw0
				if start < 0 {
					start = 0
				}
			case 2:
				start = hw0 + 1
			case 3:
				start = hw0 + 2 + int64(rr.Intn(20))
			case 4:
				start = total + 50
			default:
				if hw0 > 0 {
					start = int64(rr.Intn(int(hw0) + 1))
				}
			}
			if l.OldestOffset() == -1 {
				onEmpty.Add(1)
			}
			// While a compaction pass is between "segment replaced" and
			// "cleaned list installed", the log's segment list still holds the
			// closed originals: NewReader, the re-creation of a reader after
			// ErrSegmentReplaced and the HW lookup of a woken reader fail with
			// ErrSegmentClosed (index lookups on a closed segment are not
			// turned into ErrSegmentReplaced).  The same happens to a call
			// that took its segment-list snapshot just before a Truncate.
			// The subscription ends with an explicit error; nothing wrong is
			// delivered, so this is not judged here (counted): the harness
			// does what a client does and subscribes again at the next offset
			// it expects.  Only when a pass / a truncation of this run
			// overlapped the failing call.
			seqNow := func() [2]int64 { return [2]int64{passSeq.Load(), truncSeq.Load()} }
			transient := func(err error, ps0 [2]int64) bool {
				if pkgErrors.Cause(err) != ErrSegmentClosed {
					return false
				}
				if ex.clean == c03CleanCompact && (ps0[0]%2 == 1 || passSeq.Load() != ps0[0]) {
					return true
				}
				return ex.trunc && (ps0[1]%2 == 1 || truncSeq.Load() != ps0[1])
			}
			open := func(ns int64, hwHint int64, what string) (*Reader, int64, int64, bool) {
				for attempt := 0; ; attempt++ {
					ps0 := seqNow()
					hwB := l.HighWatermark()
					if attempt == 0 && hwHint >= -1 {
						hwB = hwHint
					}
					rdr, err := l.NewReader(ns, false)
					if err == nil {
						return rdr, hwB, l.HighWatermark(), true
					}
					if ctx.Err() != nil {
						return nil, 0, 0, false
					}
					if transient(err, ps0) {
						ex.st.transientOpen.Add(1)
						time.Sleep(200 * time.Microsecond)
						continue
					}
					fail("C03:reader-open", fmt.Sprintf("NewReader(%d, committed)%s failed with HW=%d newest=%d: %v", ns, what, hwB, l.NewestOffset(), err))
					return nil, 0, 0, false
				}
			}
			rd.start = start
			reader, hwB, hwA, ok := open(start, hw0, "")
			if !ok {
				return
			}
			rd.hwBefore, rd.hwAfter = hwB, hwA
			rd.mu.Lock()
			rd.ctxReader = reader.ctxReader
			rd.mu.Unlock()
			lo, hi := c03Window(start, rd.hwBefore, rd.hwAfter)
			if start > rd.hwAfter {
				beyond.Add(1)
			}
			rd.hi.Store(hi)
			hb := make([]byte, 28)
			c03Hb.Store(rd, hb)
			lastHW := int64(-1)
			lastCtx := reader.ctxReader
			recreatedBeforeFirst := false
			var slow *kit.RNG
			if isExtra && rd.id%2 == 1 {
				slow = kit.NewRNG(seed ^ 0xF ^ uint64(rd.id)<<8)
			}
			// resubscribe where we were (what a client does after its
			// subscription ended)
			resub := func(what string) bool {
				ns := rd.next.Load()
				if rd.first.Load() == -1 {
					// nothing delivered yet; keep the original request
					ns = start
				}
				var hwB, hwA int64
				var ok bool
				reader, hwB, hwA, ok = open(ns, -2, what)
				if !ok {
					return false
				}
				rd.mu.Lock()
				rd.ctxReader = reader.ctxReader
				rd.mu.Unlock()
				lastCtx = reader.ctxReader
				if rd.first.Load() == -1 {
					lo, hi = c03Window(ns, hwB, hwA)
					rd.hi.Store(hi)
				}
				return true
			}
			for {
				ps0 := seqNow()
				hwPre := l.HighWatermark()
				m, off, ts, ep, err := reader.ReadMessage(ctx, hb)
				if err != nil {
					if ctx.Err() != nil {
						return // cancelled by the harness (watchdog or end of run)
					}
					if transient(err, ps0) {
						ex.st.transientRead.Add(1)
						time.Sleep(200 * time.Microsecond)
						if !resub(" after a read failed with ErrSegmentClosed during a compaction pass / truncation") {
							return
						}
						continue
					}
					if pkgErrors.Cause(err) == ErrCommitLogReadonly || err == ErrCommitLogReadonly {
						// End of a read-only log: legal only if everything
						// committed before the call had been delivered.
						if rd.first.Load() == -1 && hwPre >= hi {
							fail("C03:readonly-end-early", fmt.Sprintf("reader(start=%d) ended with end-of-readonly-log before delivering anything although HW was %d and its first offset must be <= %d", start, hwPre, hi))
							return
						}
						if rd.first.Load() != -1 && rd.next.Load()-1 < hwPre {
							fail("C03:readonly-end-early", fmt.Sprintf("reader ended with end-of-readonly-log at offset %d although HW was already %d before the call", rd.next.Load()-1, hwPre))
							return
						}
						rep.Count("readonly_ends", 1)
						if !resub(" after end-of-readonly") {
							return
						}
						continue
					}
					fail("C03:reader-error"+c03StaleHW(reader, ex), fmt.Sprintf("committed reader(start=%d) failed after %d messages (next %d, HW %d): %v", start, rd.delivered.Load(), rd.next.Load(), l.HighWatermark(), err))
					return
				}
				if reader.ctxReader != lastCtx {
					// the Reader re-created its contextReader (its segment was
					// replaced by a compaction pass or a truncation)
					lastCtx = reader.ctxReader
					rd.mu.Lock()
					rd.ctxReader = lastCtx
					rd.mu.Unlock()
					ex.st.recreated.Add(1)
					if rd.first.Load() == -1 {
						recreatedBeforeFirst = true
					}
				}
				hwPost := l.HighWatermark()
				if hwPost < lastHW || hwPost < hwPre {
					fail("C03:hw-not-monotone", fmt.Sprintf("HW samples went backwards: %d then %d", max64(lastHW, hwPre), hwPost))
					return
				}
				lastHW = hwPost
				if off > hwPost {
					fail("C03:uncommitted-delivered"+c03StaleHW(reader, ex), fmt.Sprintf("committed reader delivered offset %d while the HW sampled after the read is %d", off, hwPost))
					return
				}
				rec, derr := vfDecode(m, off, ts, ep)
				if derr != nil {
					fail("C03:content", fmt.Sprintf("offset %d: %v", off, derr))
					return
				}
				want := ex.content(seed, off)
				want.Hdr = vfNormHdr(want.Hdr)
				if !vfSameRec(rec, want) {
					fail("C03:content", fmt.Sprintf("got %v want %v", rec, want))
					return
				}
				if rd.first.Load() == -1 {
					if recreatedBeforeFirst && start > rd.hwBefore {
						// Unspecified corner: a reader created beyond the HW
						// ("next committed message") whose segment is replaced
						// between its wake-up and its first read is re-created
						// from the offset it originally asked for, i.e. it starts
						// at that offset if committed by then, else after the HW
						// of that moment.  Accepted: anything from the documented
						// first offset up to min(requested offset, HW).
						if h2 := min(start, hwPost); h2 > hi {
							hi = h2
							ex.st.firstAfterRecreate.Add(1)
						}
					}
					if off < lo || off > hi {
						fail("C03:first-offset", fmt.Sprintf("reader(start=%d, HW before/after creation %d/%d) delivered %d first, expected within [%d,%d]", start, rd.hwBefore, rd.hwAfter, off, lo, hi))
						return
					}
					rd.first.Store(off)
				} else if off != rd.next.Load() {
					fp := "C03:gap"
					if off < rd.next.Load() {
						fp = "C03:duplicate-or-reorder"
					}
					fail(fp+c03StaleHW(reader, ex), fmt.Sprintf("reader(start=%d) delivered %d after %d", start, off, rd.next.Load()-1))
					return
				}
				rd.next.Store(off + 1)
				rd.delivered.Add(1)
				if slow != nil && ex.clean != 0 && !cleanerDone.Load() && slow.Chance(1, 10) {
					// a consumer that stays idle across a whole cleaner pass:
					// wait (bounded, scheduling aid only) until the pass in
					// flight, or else the next one, has installed its result
					p0 := passSeq.Load()
					target := p0 + 2 - p0%2
					deadline := time.Now().Add(300 * time.Millisecond)
					for passSeq.Load() < target && !cleanerDone.Load() && ctx.Err() == nil && time.Now().Before(deadline) {
						time.Sleep(100 * time.Microsecond)
					}
					if passSeq.Load() >= target {
						ex.st.idleAcrossPass.Add(1)
					}
				} else if slow != nil && slow.Chance(1, 3) {
					// a slow consumer: stays inside sealed segments while the
					// cleaner / the truncating follower replaces them
					time.Sleep(time.Duration(slow.Intn(400)) * time.Microsecond)
				}
				rep.Count("committed_reads", 1)
				if off == H {
					return
				}
			}
		}()
	}

	// wait for writers, then for readers with the stuck-state predicate
	wg.Wait()
	// A reader owes deliveries if it already delivered something (then it must
	// reach H) or if its first offset is certainly <= H.  A reader created
	// beyond the final HW legitimately waits forever.
	pending := func(rd *c03Reader) bool {
		return !rd.done.Load() && !rd.excused.Load() && (rd.first.Load() != -1 || rd.hi.Load() <= H)
	}
	allDone := func() bool {
		for _, rd := range readers {
			if pending(rd) {
				return false
			}
		}
		return true
	}
	deadline := time.Now().Add(60 * time.Second)
	stuckSeen := map[int]int{}
	for !allDone() && !runFailed.Load() && c03NewViol.Load() == 0 {
		if finalSet.Load() {
			// quiescent: HW is final.  A reader parked in hwWaiters that still
			// has committed messages to deliver can never be woken.
			l.mu.Lock()
			// A Reader that re-created its contextReader inside the current
			// ReadMessage call (segment replaced) parks under a key the
			// harness has not seen yet.  All hwWaiters keys of this log belong
			// to this run's readers, so when the unknown keys are exactly as
			// many as the pending readers not found under their known key,
			// those readers are the parked ones.
			known := map[contextReader]bool{}
			for _, rd := range readers {
				rd.mu.Lock()
				if rd.ctxReader != nil {
					known[rd.ctxReader] = true
				}
				rd.mu.Unlock()
			}
			unknown, unfound := 0, 0
			for k := range l.hwWaiters {
				if !known[k] {
					unknown++
				}
			}
			for _, rd := range readers {
				if !rd.done.Load() {
					rd.mu.Lock()
					if _, ok := l.hwWaiters[rd.ctxReader]; rd.ctxReader != nil && !ok {
						unfound++
					}
					rd.mu.Unlock()
				}
			}
			for _, rd := range readers {
				if !pending(rd) {
					continue
				}
				rd.mu.Lock()
				cr := rd.ctxReader
				rd.mu.Unlock()
				if cr == nil {
					continue
				}
				_, parked := l.hwWaiters[cr]
				if !parked && unknown > 0 && unknown == unfound {
					if rd.first.Load() == -1 && rd.start > H {
						// re-created before its first delivery from a requested
						// offset beyond the final HW: it waits for a message
						// that will never be committed (see the first-offset
						// corner above); owes nothing
						rd.excused.Store(true)
						continue
					}
					parked = true
				}
				if parked && l.hw == H && !l.IsReadonly() {
					stuckSeen[rd.id]++
				} else {
					stuckSeen[rd.id] = 0
				}
			}
			l.mu.Unlock()
			for id, n := range stuckSeen {
				// seen parked in two consecutive inspections of the quiescent
				// state (the reader goroutine is inside waitForHW's select)
				if n >= 2 && pending(readers[id]) {
					rd := readers[id]
					fail("C03:lost-wakeup", fmt.Sprintf("quiescent log (final HW=%d set, no writers): reader(start=%d) is parked in hwWaiters after delivering %d messages (next expected %d <= HW) and nothing can wake it", H, rd.start, rd.delivered.Load(), rd.next.Load()))
				}
			}
		}
		if time.Now().After(deadline) {
			for _, rd := range readers {
				if pending(rd) {
					rep.Inconc(fmt.Sprintf("run %d (seed %d): watchdog — reader(start=%d) delivered %d, next %d, final HW %d", idx, seed, rd.start, rd.delivered.Load(), rd.next.Load(), H))
				}
			}
			break
		}
		time.Sleep(2 * time.Millisecond)
	}
	cancel()
	close(stopAux)
	rwg.Wait()
	auxWg.Wait()
	nseg := len(l.Segments())
	rep.Eval()
	rep.Count("segments_rolled", int64(nseg))
	rep.Count("readers", int64(nread))
	rep.Count("readers_created_beyond_hw", beyond.Load())
	rep.Count("readers_created_on_empty_log", onEmpty.Load())
	starts := make([]int64, nread)
	for i, rd := range readers {
		starts[i] = rd.start
	}
	if isExtra {
		// the cleaner unit has its own non-triviality rule
		if nseg >= 3 && (ex.clean == 0 || ex.st.passes.Load() > 0) {
			rep.Nontrivial(fmt.Sprintf("%d|%d|%v|%d|%v|%s|%v", maxSeg, total, starts, profile, follower, c03CleanNames[ex.clean], ex.trunc))
		}
	} else if nseg >= 3 && beyond.Load() > 0 {
		rep.Nontrivial(fmt.Sprintf("%d|%d|%v|%d", maxSeg, total, starts, profile))
	}
	if idx%97 == 0 {
		rep.Sample(witness())
	}
}

func max64(a, b int64) int64 {
	if a > b {
		return a
	}
	return b
}

// TestVerifC03Follower: the same monitors on a log that is written the way a
// follower writes it (adopt the leader's HW, then AppendMessageSet), with
// committed readers on that replica (subscriptions served by an in-sync
// follower).  The adopted HW may be ahead of the local log end.
func TestVerifC03Follower(t *testing.T) {
	rep := kit.NewReport("C03", "follower")
	defer rep.Write()
	rep.SetRule("as the stress unit, but the log is fed like a follower: per batch AppendMessageSet(bytes) then SetHighWatermark(min(leader HW, local newest)) with the leader HW anywhere in [previous HW, batch end + 3]; no read-only toggles; same per-read and completeness oracle; non-trivial = run rolled >=3 segments and a reader was created beyond the HW; distinct = (segment size, messages, reader starts, profile)")
	verifhook.Set(c03Hook)
	defer verifhook.Set(nil)
	root := kit.NewRNG(kit.Mix(kit.Seed(), 0xC03F))
	runs := kit.Scale(90, 1200)
	seeds := make([]uint64, runs)
	for i := range seeds {
		seeds[i] = root.Uint64()
	}
	per := runs / 3
	for profile := 0; profile < 3; profile++ {
		c03DelayMode.Store(int64(profile))
		lo, hi := profile*per, (profile+1)*per
		if profile == 2 {
			hi = runs
		}
		kit.Parallel(hi-lo, kit.Workers(), func(k int) {
			if rep.NumViolations() >= 6 {
				return
			}
			c03Run(rep, lo+k, seeds[lo+k], profile, true, c03Extra{})
		})
	}
}
