//go:build verif

package commitlog

// C09 periodic unit: the retention limits as the log's own PERIODIC cleaner
// loop (commitLog.cleanerLoop, started by New, driven by a real ticker with
// Options.CleanerInterval) enforces them.  The other C09 units call Clean()
// themselves; here nobody does - segments disappear only if the loop decides
// to run a pass.
//
// What is real and what is mocked: the ticker is real (intervals of a few
// milliseconds), the AGE clock is not: computeTTL (the package's mock point) is
// replaced by a per-log fake clock which the harness moves, and all message
// timestamps are harness-chosen, so "a segment expired between two ticks" is a
// harness event, not a sleep.  Passes of a log are observed at the existing
// hook point clean.afterCleanSegments (reached by every Clean(), after the
// deletions and before the segment list is swapped); the point carries no
// argument, the handler attributes it to a log by the receiver pointer of the
// commitLog.Clean frame on its own goroutine's stack.  The handler can PARK a
// log's loop there, which gives the harness quiescent moments to parse the
// files (and to append segments whose boundaries it then knows before the
// cleaner can touch them).
//
// Verdicts are counted in observed passes, never in time: after a change (the
// clock moved, segments were appended, the log was reopened, or nothing) the
// harness waits for the log's THIRD pass after the change - the second one is
// then a pass that started after the change and has completed including the
// swap - parks the loop there and judges the files against the state before
// the change with the same reference semantics as the other units.  A log
// whose loop stops making passes cannot be told from a slow one by waiting, so
// a CONTROL log (same loop code, the longest interval used, kept busy by an
// appender) runs in the same process: "the control log completed K passes while
// this log made none, and this log's files violate a configured limit" is the
// verdict for a loop that no longer enforces the limits; without a violated
// limit it is only counted.  An absolute watchdog is inconclusive.

import (
	"fmt"
	"os"
	"runtime"
	"strings"
	"sync"
	"sync/atomic"
	"testing"
	"time"

	kit "github.com/liftbridge-io/liftbridge/internal/verifkit"
	"github.com/liftbridge-io/liftbridge/server/verifhook"
)

const (
	c09PControlInterval = 15 * time.Millisecond
	c09PStallPasses     = 240 // control passes without a pass of the log under test (and >= 3 s, see await)
	c09PPoint           = "clean.afterCleanSegments"
)

// c09PState is the harness's view of one open log's cleaner loop.
type c09PState struct {
	mu       sync.Mutex
	cond     *sync.Cond
	events   int64 // passes that reached clean.afterCleanSegments
	holdFrom int64 // park every pass numbered >= holdFrom (0 = run freely)
	waiting  int64 // number of the pass that is waiting at the hook point (0 = none)
	ttlCalls int64
	now      int64 // fake clock of this log: computeTTL(age) = now - age
}

func newC09PState() *c09PState {
	s := &c09PState{}
	s.cond = sync.NewCond(&s.mu)
	return s
}

var (
	c09PByPtr        sync.Map // "0xc000123456" (commitLog pointer) -> *c09PState
	c09PByAge        sync.Map // int64(MaxLogAge) -> *c09PState
	c09PUID          atomic.Int64
	c09PUnattributed atomic.Int64
	c09PControl      *c09PState
)

func (s *c09PState) event() {
	s.mu.Lock()
	s.events++
	n := s.events
	for s.holdFrom > 0 && n >= s.holdFrom {
		s.waiting = n
		s.cond.Wait()
	}
	s.waiting = 0
	s.mu.Unlock()
}

// hold sets the parking threshold relative to the passes seen so far (delta 0
// = run freely) and returns the current pass count.  fn (may be nil) runs under
// the same lock, so a clock change and the threshold are one atomic step.
func (s *c09PState) hold(delta int64, fn func()) int64 {
	s.mu.Lock()
	defer s.mu.Unlock()
	if fn != nil {
		fn()
	}
	if delta == 0 {
		s.holdFrom = 0
	} else {
		s.holdFrom = s.events + delta
	}
	s.cond.Broadcast()
	return s.events
}

func (s *c09PState) snapshot() (events int64, parked bool, hold int64) {
	s.mu.Lock()
	defer s.mu.Unlock()
	// parked = a pass waits at the hook point AND the current threshold still
	// holds it (a pass that was released but has not woken up yet is not parked)
	return s.events, s.waiting > 0 && s.holdFrom > 0 && s.waiting >= s.holdFrom, s.holdFrom
}

func c09PCleanReceiver() string {
	buf := make([]byte, 8192)
	n := runtime.Stack(buf, false)
	st := string(buf[:n])
	const pat = ".(*commitLog).Clean(0x"
	i := strings.Index(st, pat)
	if i < 0 {
		return ""
	}
	st = st[i+len(pat)-2:]
	j := strings.IndexAny(st, "?,)")
	if j < 0 {
		return ""
	}
	return st[:j]
}

func c09PInstall() {
	computeTTL = func(age time.Duration) int64 {
		v, ok := c09PByAge.Load(int64(age))
		if !ok {
			return c09Now - int64(age)
		}
		s := v.(*c09PState)
		s.mu.Lock()
		s.ttlCalls++
		now := s.now
		s.mu.Unlock()
		return now - int64(age)
	}
	verifhook.Set(func(name string, args ...interface{}) error {
		if name != c09PPoint {
			return nil
		}
		ptr := c09PCleanReceiver()
		if ptr == "" {
			c09PUnattributed.Add(1)
			return nil
		}
		if v, ok := c09PByPtr.Load(ptr); ok {
			v.(*c09PState).event()
		}
		return nil
	})
}

func c09PRegister(l *commitLog, s *c09PState) string {
	p := fmt.Sprintf("%p", l)
	c09PByPtr.Store(p, s)
	return p
}

// c09PStartControl opens the control log and keeps it busy.
func c09PStartControl() (stop func(), err error) {
	dir := vfTempDir("c09pctl")
	o := vfOpts(dir, 64<<20)
	o.Name = "c09p-control"
	o.CleanerInterval = c09PControlInterval
	o.MaxLogMessages = 1 << 40 // a limit, so that passes are real ones; never binding
	l, err := vfOpen(o)
	if err != nil {
		return nil, err
	}
	c09PControl = newC09PState()
	c09PRegister(l, c09PControl)
	done := make(chan struct{})
	var wg sync.WaitGroup
	wg.Add(1)
	go func() {
		defer wg.Done()
		off := int64(0)
		for {
			select {
			case <-done:
				return
			case <-time.After(3 * time.Millisecond):
			}
			if _, err := l.Append([]*Message{c09Rec(off, 6, 2000).msg()}); err != nil {
				return
			}
			l.SetHighWatermark(off)
			off++
		}
	}()
	return func() {
		close(done)
		wg.Wait()
		l.Close()
	}, nil
}

type c09PCase struct {
	e        *c09Env
	rep      *kit.Report
	rng      *kit.RNG
	st       *c09PState
	ptr      string
	age      time.Duration // the log's real MaxLogAge (0 = no age limit)
	cutoff   int64
	interval time.Duration
	passes   int64
	// passes of earlier instances of this log (before restarts)
	passesBefore int64
}

// await waits until the loop is parked (at its threshold), or the control log
// made c09PStallPasses passes during which this log made none ("stalled"), or
// the watchdog fires.
func (p *c09PCase) await() string {
	ctl0, _, _ := c09PControl.snapshot()
	last, _, _ := p.st.snapshot()
	last0, lastAt := last, time.Now()
	deadline := time.Now().Add(90 * time.Second)
	for {
		ev, parked, _ := p.st.snapshot()
		if parked {
			return "parked"
		}
		ctl, _, _ := c09PControl.snapshot()
		if ev != last {
			last, ctl0 = ev, ctl
		}
		if ev != last0 {
			last0, lastAt = ev, time.Now()
		}
		// "stalled" needs BOTH many control passes and real time without any
		// pass of this log: on an overloaded machine one loop goroutine can be
		// starved for a while although the control loop gets to run
		if ctl-ctl0 >= c09PStallPasses && time.Since(lastAt) >= 3*time.Second {
			return "stalled"
		}
		if time.Now().After(deadline) {
			return "watchdog"
		}
		time.Sleep(500 * time.Microsecond)
	}
}

// idle lets the free-running loop make n further passes (gives up silently
// when the loop stalls: the next await decides what that means).
func (p *c09PCase) idle(n int) {
	if n == 0 {
		return
	}
	p.st.hold(int64(n), nil)
	p.await()
	p.st.hold(0, nil)
}

func (p *c09PCase) setCutoff(c int64) {
	p.cutoff = c
	p.st.now = c + int64(p.age) // caller holds st.mu (hold's fn) or the loop is not running
	p.e.lim.Age = c09AgeFor(c)
	p.e.trace = append(p.e.trace, fmt.Sprintf("Clock(cutoff=%d)", c))
}

// nextCutoff picks a later cutoff aimed at the segments' last-write times
// (cutoffs end in 5, timestamps in 0: never equal).
func (p *c09PCase) nextCutoff(segs []c09Seg) (int64, bool) {
	var cand []int64
	hi := int64(0)
	for _, s := range segs {
		if s.Count == 0 {
			continue
		}
		for _, c := range []int64{s.LastTS - 5, s.LastTS + 5} {
			if c > p.cutoff {
				cand = append(cand, c)
			}
		}
		hi = max(hi, s.LastTS)
	}
	if len(cand) == 0 {
		return 0, false
	}
	if p.rng.Chance(1, 4) {
		return hi + 5, true // everything is old
	}
	return cand[p.rng.Intn(len(cand))], true
}

func (p *c09PCase) open(opts Options) bool {
	l, err := vfOpen(opts)
	if err != nil {
		p.e.log = nil
		p.e.fail("C09:periodic:reopen", fmt.Sprintf("opening the log failed: %v", err), nil)
		return false
	}
	p.e.log = l
	p.ptr = c09PRegister(l, p.st)
	return true
}

// closeLog lets a parked pass finish (its swap happens after the hook point)
// before the log is closed.
func (p *c09PCase) closeLog() {
	if p.e.log == nil {
		return
	}
	_, parked, _ := p.st.snapshot()
	p.st.hold(0, nil)
	if parked {
		p.idle(1)
	}
	c09PByPtr.Delete(p.ptr)
	p.e.log.Close()
	p.e.log = nil
}

func c09PKinds(l c09Limits, ageOn bool) string {
	if !ageOn {
		l.Age = 0
	}
	return l.kinds()
}

// judge compares the files now (loop parked or stalled) with the state `all`
// from before the change and applies the sequential C09 oracle.
func (p *c09PCase) judge(all []c09Seg, how, waited string) (cur []c09Seg, removed int, ok bool) {
	e := p.e
	// Stable observation: the files and the segment list are read while no
	// pass event happens in between; something scan() objects to is reported
	// only if three observations in a row (20 ms apart, no pass in between)
	// show the same thing — a pass caught between deleting files and
	// installing its list, or a loop that was only starved, is transient.
	var post []c09Seg
	ok = false
	same, lastIssue := 0, [2]string{}
	for attempt := 0; attempt < 12; attempt++ {
		ev0, _, _ := p.st.snapshot()
		e.deferScan = true
		st, sok := e.scan("periodic cleaner, after " + how)
		e.deferScan = false
		issue := e.scanIssue
		ev1, _, _ := p.st.snapshot()
		if ev0 != ev1 {
			same = 0
			time.Sleep(20 * time.Millisecond)
			continue
		}
		if sok {
			post, ok = st, true
			break
		}
		if issue == lastIssue {
			same++
		} else {
			same, lastIssue = 1, issue
		}
		if same >= 3 {
			e.fail(issue[0], issue[1], nil)
			return nil, 0, false
		}
		time.Sleep(20 * time.Millisecond)
	}
	if !ok {
		e.rep.Inconc(fmt.Sprintf("periodic case: no stable observation of files and segment list after [%s] (the loop kept running or the state kept changing)", how))
		return nil, 0, false
	}
	// The loop also rolls the log: a tick that finds the active segment full
	// appends a new, empty active segment (and skips the clean of that tick).
	// From then on that one is the newest segment.
	if n := len(post); n > 0 && post[n-1].Count == 0 && post[n-1].Base == e.next && all[len(all)-1].Base != e.next {
		all = append(append([]c09Seg(nil), all...), c09Seg{Base: e.next, FirstOff: -1, LastOff: -1})
		e.rep.Count("rounds_in_which_the_loop_rolled_an_empty_active_segment", 1)
		e.trace = append(e.trace, "RolledByLoop")
	}
	kinds := c09PKinds(e.lim, p.age > 0)
	want := c09ExpectedKeep(all, e.lim)
	wit := map[string]any{"segments_before": fmt.Sprint(all), "segments_after": fmt.Sprint(c09Bases(post)), "documented_semantics_keep_from_index": want,
		"change": how, "cleaner_interval": p.interval.String(), "passes_of_this_log_observed": p.passes, "loop": waited,
		"expired_flags_before_E_is_older_than_cutoff": c09AgePattern(all, e.lim)}
	if len(post) == 0 || post[len(post)-1].Base != all[len(all)-1].Base {
		e.fail("C09:periodic:newest-removed", fmt.Sprintf("the newest segment (base %d) is gone; before %v after %v", all[len(all)-1].Base, c09Bases(all), c09Bases(post)), wit)
		return nil, 0, false
	}
	k := c09SuffixIndex(c09Bases(all), c09Bases(post))
	if k < 0 {
		e.fail("C09:periodic:not-a-suffix", fmt.Sprintf("surviving segments %v are not a contiguous suffix of %v", c09Bases(post), c09Bases(all)), wit)
		return nil, 0, false
	}
	e.removedSegs += k
	for i := range post {
		q := all[k+i]
		same := post[i].Count == q.Count && post[i].Bytes == q.Bytes
		for j := 0; same && j < len(q.Recs); j++ {
			same = vfSameRec(q.Recs[j], post[i].Recs[j])
		}
		if !same {
			e.fail("C09:periodic:survivor-changed", fmt.Sprintf("surviving segment changed: before %v after %v", q, post[i]), wit)
			return nil, 0, false
		}
	}
	// NECESSITY (the clock only moves forward and the log only grows, so a
	// segment that was legitimately removed by any pass since `all` was taken
	// also fails the limits as they stand now)
	for j := k - 1; j >= 0; j-- {
		if v := c09Violated(all[j:], e.lim); len(v) == 0 {
			e.fail("C09:periodic:removed-more-than-needed:"+kinds,
				fmt.Sprintf("after [%s] the periodic cleaner removed segment base %d (index %d) although the log from it on satisfies every configured limit (%s; expired flags %s): kept from index %d, documented semantics keep from index %d; before %v",
					how, all[j].Base, j, e.lim, c09AgePattern(all, e.lim), k, want, all), wit)
			break
		}
	}
	// SUFFICIENCY
	if len(post) > 1 {
		if v := c09Violated(post, e.lim); len(v) > 0 {
			fp := "C09:periodic:limit-not-enforced:" + strings.Join(v, "+")
			what := fmt.Sprintf("a complete pass of the periodic cleaner that started after [%s] has finished", how)
			if waited == "stalled" {
				fp += ":loop-made-no-pass"
				what = fmt.Sprintf("after [%s] the log's cleaner loop (interval %s) made no further pass while a control log running the same loop with interval %s completed %d passes", how, p.interval, c09PControlInterval, c09PStallPasses)
			}
			e.fail(fp, fmt.Sprintf("%s, and the log still violates %v (%s; expired flags before %s) with %d segments left: %v; documented semantics keep from index %d of %v",
				what, v, e.lim, c09AgePattern(all, e.lim), len(post), post, want, all), wit)
			return post, k, false
		}
	}
	if got := e.log.OldestOffset(); got != post[0].FirstOff && post[0].Count > 0 {
		e.fail("C09:periodic:oldest-offset", fmt.Sprintf("OldestOffset=%d, first surviving offset is %d", got, post[0].FirstOff), wit)
	}
	if got := e.log.NewestOffset(); got != e.next-1 {
		e.fail("C09:periodic:newest-offset", fmt.Sprintf("NewestOffset=%d, last appended offset is %d", got, e.next-1), wit)
	}
	e.checkReads(p.rng, all, post, k, wit)
	if left := e.leftovers(post); len(left) > 0 {
		e.fail("C09:periodic:removed-segment-file-left", fmt.Sprintf("files of removed segments are left in the log directory: %v", left), wit)
	}
	e.cleans++
	return post, k, true
}

func TestVerifC09Periodic(t *testing.T) {
	rep := kit.NewReport("C09", "periodic")
	defer rep.Write()
	rep.SetRule("the log's own periodic cleaner loop on real ticks (CleanerInterval 4/8/15 ms) with a per-log MOCKED age clock (computeTTL) and harness-chosen timestamps; nobody calls Clean(): seeded layouts (as in the seeded unit, 1 in 5 with skewed leader clocks) are built, the log is reopened with limits (age on in 4 of 5 cases, message/byte limits aimed at the layout) and 2-5 changes follow: the fake clock passes the last-write time of some segment while the log sits idle and the loop keeps ticking (0-3 idle passes before), nothing at all, appends (with the loop parked, so the new segments are measured before the cleaner sees them) with or without a clock move, appends while the loop keeps ticking (one-batch-per-segment layouts, so the segments are known without a scan; clock moves in between), HW moves, close+reopen with or without a clock move while down; after every change the THIRD pass of that log observed at " + c09PPoint + " is parked and the files are judged against the state before the change: removed = prefix of whole segments, never the newest, necessity, sufficiency, survivors untouched, offsets, forward/reverse reads, no leftover files; a loop that makes no pass while the busy control log (interval 15 ms) makes 60 is judged on its files as they are (limit violated => violation ...:loop-made-no-pass); non-trivial = the loop removed >=1 segment in an idle round; distinct = layout + limits + changes")
	rep.Assume("passes are attributed to logs by the receiver pointer in the goroutine stack at the hook point; a pass that cannot be attributed downgrades 'loop made no pass' verdicts to inconclusive")
	rep.Assume("necessity is judged with the limits as they stand when the loop is parked: the fake clock only moves forward and the log only grows, so this is implied for every pass in between")
	rep.Assume("timestamps never equal the age cutoff; age semantics with non-monotonic last-write times as in the seeded unit")
	c09PInstall()
	stopControl, err := c09PStartControl()
	if err != nil {
		rep.Inconc("control log: " + err.Error())
		return
	}
	root := kit.NewRNG(kit.Mix(kit.Seed(), 0xC09E))
	ncases := kit.Scale(160, 2400)
	seeds := make([]uint64, ncases)
	for i := range seeds {
		seeds[i] = root.Uint64()
	}
	var dirMu sync.Mutex
	var dirs []string
	kit.Parallel(ncases, 2*kit.Workers(), func(i int) {
		if rep.NumViolations() >= 8 {
			return
		}
		d := c09RunPeriodic(rep, seeds[i], i)
		dirMu.Lock()
		dirs = append(dirs, d)
		dirMu.Unlock()
	})
	ctl, _, _ := c09PControl.snapshot()
	rep.Count("control_log_passes", ctl)
	rep.Count("passes_not_attributed_to_a_log", c09PUnattributed.Load())
	stopControl()
	// the loops may make one more pass after Close: remove the directories late
	time.Sleep(3 * c09PControlInterval)
	for _, d := range dirs {
		if d != "" {
			os.RemoveAll(d)
		}
	}
}

func c09RunPeriodic(rep *kit.Report, seed uint64, idx int) (dir string) {
	rng := kit.NewRNG(seed)
	maxSeg := int64(1)
	if rng.Chance(2, 5) {
		maxSeg = []int64{120, 300}[rng.Intn(2)]
	}
	ts := int64(1000)
	nb := rng.Range(2, 7)
	if maxSeg > 1 {
		nb = rng.Range(4, 16)
	}
	var skew *c09Skew
	if rng.Chance(1, 5) {
		skew = &c09Skew{maxTerm: 3}
	}
	batches, planned := c09PlanClk(rng, maxSeg, &ts, nb, nil, skew)
	lim := c09PickLimits(rng, planned)
	ageOn := rng.Chance(4, 5)
	if !ageOn && lim.Msgs == 0 && lim.Bytes == 0 {
		ageOn = true
	}
	if rng.Chance(1, 4) { // the age limit alone
		lim.Msgs, lim.Bytes, ageOn = 0, 0, true
	}
	lim.Age = 0
	// build with a first instance whose loop never ticks and which has no limits
	opts := c09OptsAt(vfTempDir("c09p"), "c09p", maxSeg, c09Limits{})
	dir = opts.Path
	e := &c09Env{rep: rep, tag: "periodic", dir: dir, opts: opts, orig: map[int64]vfRec{}, hw: -1, ts: 1000}
	p := &c09PCase{e: e, rep: rep, rng: rng, st: newC09PState(), interval: []time.Duration{4, 8, 15}[rng.Intn(3)] * time.Millisecond}
	l, err := vfOpen(opts)
	if err != nil {
		rep.Violation("C09:open-error", err.Error(), nil)
		return
	}
	e.log = l
	defer func() {
		p.closeLog()
		rep.Count("passes_of_logs_under_test_observed", p.passes+p.passesBefore)
	}()
	run := func(bs []c09Batch) bool {
		for _, b := range bs {
			if !e.appendBatch(b.vlen, b.ts) {
				return false
			}
		}
		return true
	}
	if !run(batches) {
		return
	}
	if rng.Chance(3, 4) {
		e.setHW(e.next - 1)
	}
	all, ok := e.scan("after the build")
	if !ok {
		return
	}
	e.log.Close()
	e.log = nil
	// reopen with the limits and a ticking loop
	e.lim = lim
	if ageOn {
		p.age = time.Hour + time.Duration(c09PUID.Add(1))
		c09PByAge.Store(int64(p.age), p.st)
		lo := all[0].LastTS
		for _, s := range all {
			if s.Count > 0 {
				lo = min(lo, s.LastTS)
			}
		}
		p.cutoff = 0
		if c, ok := p.nextCutoff(all); ok && rng.Chance(1, 3) {
			p.setCutoff(c) // some segments are already old when the loop starts
		} else {
			p.setCutoff(lo - 5) // nothing is old yet
		}
	}
	e.opts = c09OptsAt(dir, "c09p", maxSeg, c09Limits{Msgs: lim.Msgs, Bytes: lim.Bytes})
	e.opts.MaxLogAge = p.age
	e.opts.CleanerInterval = p.interval
	e.trace = append(e.trace, fmt.Sprintf("Open(loop every %s; %s)", p.interval, e.lim))
	p.st.hold(3, nil)
	if !p.open(e.opts) {
		return
	}
	how, class := "reopen with limits", "reopen"
	rounds := rng.Range(2, 5)
	idleRemoved := false
	var kindsSeen []string
	for r := 0; ; r++ {
		waited := p.await()
		ev, _, _ := p.st.snapshot()
		p.passes = ev
		switch waited {
		case "watchdog":
			rep.Inconc(fmt.Sprintf("case %d: watchdog while waiting for the cleaner loop after [%s]", idx, how))
			return
		case "stalled":
			rep.Count("rounds_in_which_the_loop_made_no_pass", 1)
			if c09PUnattributed.Load() > 0 {
				rep.Inconc(fmt.Sprintf("case %d: no pass attributed to the log after [%s] and some passes could not be attributed", idx, how))
				return
			}
		}
		cur, removed, ok := p.judge(all, how, waited)
		if !ok {
			return
		}
		rep.Count("rounds_judged", 1)
		rep.Count("rounds_"+class, 1)
		if removed > 0 {
			rep.Count("rounds_"+class+"_removed_segments", 1)
			if strings.HasPrefix(class, "idle") {
				idleRemoved = true
			}
		}
		all = cur
		if r == rounds {
			break
		}
		// next change
		kind := []string{"idle-clock", "idle-clock", "idle-clock", "idle-nothing", "append", "append-clock", "restart", "restart-clock", "append-running", "append-running"}[rng.Intn(10)]
		if kind == "append-running" && maxSeg != 1 {
			// segment boundaries are only known without a scan when every
			// batch gets a segment of its own
			kind = "append"
		}
		if p.age == 0 {
			kind = strings.TrimSuffix(strings.Replace(kind, "idle-clock", "idle-nothing", 1), "-clock")
		}
		_, parked, _ := p.st.snapshot()
		if !parked && strings.HasPrefix(kind, "append") {
			// (only after a round in which the loop made no pass) the new
			// segments could not be measured before the cleaner sees them
			p.st.hold(1, nil)
			if p.await() != "parked" {
				kind = "idle-nothing"
			}
		}
		class = kind
		switch kind {
		case "idle-clock", "idle-nothing":
			// the loop runs freely on an idle log; then the clock passes an expiry
			p.st.hold(0, nil)
			n := rng.Range(0, 3)
			p.idle(n)
			c, can := int64(0), false
			if kind == "idle-clock" {
				c, can = p.nextCutoff(all)
			}
			if rng.Chance(1, 3) && e.hw < e.next-1 {
				e.setHW(e.next - 1)
			}
			if can {
				how = fmt.Sprintf("idle log, %d idle passes, then the age clock moved", n)
				p.st.hold(3, func() { p.setCutoff(c) })
			} else {
				how, class = fmt.Sprintf("idle log, %d idle passes, nothing changed", n), "idle-nothing"
				p.st.hold(3, nil)
			}
		case "append", "append-clock":
			if ts < p.cutoff && rng.Bool() {
				ts = p.cutoff + 5 + 10*int64(rng.Range(0, 5))
			}
			var more []c09Batch
			more, planned = c09PlanClk(rng, maxSeg, &ts, rng.Range(1, 6), planned, skew)
			if !run(more) {
				return
			}
			if rng.Chance(2, 3) {
				e.setHW(e.next - 1)
			}
			if all, ok = e.scan("after appends under a parked loop"); !ok {
				return
			}
			how = "append (loop parked)"
			var fn func()
			if kind == "append-clock" {
				if c, can := p.nextCutoff(all); can {
					how = "append (loop parked) and the age clock moved"
					fn = func() { p.setCutoff(c) }
				}
			}
			p.st.hold(3, fn)
		case "append-running":
			// The log keeps being written while the loop ticks: nothing is
			// parked, the cleaner may remove segments before the harness has
			// seen them.  With MaxSegmentBytes=1 every batch lands in a
			// segment of its own (rolled by Append, or already rolled empty by
			// the loop), so the state "before" is known by construction.
			p.st.hold(0, nil)
			all = append([]c09Seg(nil), all...)
			if n := len(all); all[n-1].Count == 0 {
				all = all[:n-1] // an empty active segment: the first batch goes there
			}
			nb := rng.Range(1, 4)
			moveAfter := -1
			if p.age > 0 && rng.Bool() {
				moveAfter = rng.Intn(nb)
			}
			how = fmt.Sprintf("%d appends while the loop keeps ticking", nb)
			for b := 0; b < nb; b++ {
				var one []c09Batch
				one, planned = c09PlanClk(rng, maxSeg, &ts, 1, planned, skew)
				first := e.next
				if !run(one) {
					return
				}
				sg := c09Seg{Base: first, Count: e.next - first, Bytes: (e.next - first) * c09RecBytes(one[0].vlen), FirstOff: first, LastOff: e.next - 1}
				for o := first; o < e.next; o++ {
					sg.Recs = append(sg.Recs, e.orig[o])
				}
				sg.LastTS = sg.Recs[len(sg.Recs)-1].TS
				all = append(all, sg)
				if rng.Bool() {
					e.setHW(e.next - 1)
				}
				if b == moveAfter {
					if c, can := p.nextCutoff(all); can {
						how += ", the age clock moved in between"
						p.st.hold(0, func() { p.setCutoff(c) })
					}
				}
				if b < nb-1 {
					p.idle(rng.Range(0, 2))
				}
			}
			p.st.hold(3, nil)
		case "restart", "restart-clock":
			p.closeLog()
			how = "restart"
			// The closed instance's loop may still make a pass or two (its
			// select can prefer the ticker over the closed channel): it keeps
			// its own clock, which no longer moves, so those passes find
			// nothing to do.  The new instance gets a new clock and counter.
			p.passesBefore += p.passes
			p.st = newC09PState()
			if p.age > 0 {
				p.age = time.Hour + time.Duration(c09PUID.Add(1))
				c09PByAge.Store(int64(p.age), p.st)
				c := p.cutoff
				if kind == "restart-clock" {
					if c2, can := p.nextCutoff(all); can {
						how, c = "restart and the age clock moved while down", c2
					}
				}
				p.setCutoff(c)
				e.opts.MaxLogAge = p.age
			}
			e.trace = append(e.trace, "Restart")
			p.st.hold(3, nil)
			if !p.open(e.opts) {
				return
			}
		}
		kindsSeen = append(kindsSeen, kind)
	}
	if idx < 3 {
		rep.Sample(e.replay(map[string]any{"changes": kindsSeen}))
	}
	e.finish(fmt.Sprintf("%d|%s|%s", maxSeg, strings.Join(e.trace, " "), c09PKinds(e.lim, p.age > 0)), idleRemoved)
	return
}
