//go:build verif

package commitlog

// C09 — retention removes only whole oldest segments, no more than the limits
// require.  This file holds the environment and the oracle shared by the C09
// units (seeded, enum, racing).  Everything the oracle knows about a segment
// comes from an independent raw parse of the .log files before and after the
// clean; the age cutoff comes from the package's own mock point computeTTL,
// pinned to a fixed instant, and all message timestamps are chosen by the
// harness, so no wall clock is involved anywhere.

import (
	"fmt"
	"os"
	"path/filepath"
	"strings"
	"time"

	kit "github.com/liftbridge-io/liftbridge/internal/verifkit"
)

// c09Now is the fixed "current time" (ns) behind the mocked computeTTL.
const c09Now int64 = 1 << 40

func c09InstallTTL() func() {
	before := computeTTL
	computeTTL = func(age time.Duration) int64 { return c09Now - int64(age) }
	return func() { computeTTL = before }
}

// c09AgeFor returns the MaxLogAge that puts the cutoff at ttl.
func c09AgeFor(ttl int64) time.Duration { return time.Duration(c09Now - ttl) }

type c09Limits struct {
	Age   time.Duration // 0 = off
	Msgs  int64         // 0 = off
	Bytes int64         // 0 = off
}

func (l c09Limits) String() string {
	ttl := "off"
	if l.Age > 0 {
		ttl = fmt.Sprint(c09Now - int64(l.Age))
	}
	return fmt.Sprintf("ageCutoff=%s msgs=%d bytes=%d", ttl, l.Msgs, l.Bytes)
}

func (l c09Limits) kinds() string {
	var k []string
	if l.Age > 0 {
		k = append(k, "age")
	}
	if l.Msgs > 0 {
		k = append(k, "msgs")
	}
	if l.Bytes > 0 {
		k = append(k, "bytes")
	}
	if len(k) == 0 {
		return "none"
	}
	return strings.Join(k, "+")
}

// c09Seg is what the raw parse says about one segment file.
type c09Seg struct {
	Base, Count, Bytes, LastTS, FirstOff, LastOff int64
	Recs                                          []vfRec
}

func (s c09Seg) String() string {
	return fmt.Sprintf("{base=%d n=%d bytes=%d lastTS=%d}", s.Base, s.Count, s.Bytes, s.LastTS)
}

func c09Bases(st []c09Seg) []int64 {
	b := make([]int64, len(st))
	for i, s := range st {
		b[i] = s.Base
	}
	return b
}

// c09Expired: the segment's last write (= the timestamp of its last message)
// lies before the age cutoff.
func c09Expired(s c09Seg, lim c09Limits) bool {
	return lim.Age > 0 && s.Count > 0 && s.LastTS < c09Now-int64(lim.Age)
}

// c09Violated lists the configured limits that the log st (ordered, st[0] =
// oldest, last = newest) violates.  messages / bytes = the log holds more than
// the maximum.  age = the OLDEST segment of st is past its TTL ("the TTL for
// stream log segment files, after which they are deleted",
// documentation/configuration.md): retention works from the oldest end only,
// so the age limit can only ever be applied to the segment at the oldest end.
// Last-write times need not be monotonic across segments (a leader change
// between brokers with skewed clocks): an expired segment BEHIND a segment
// that is still within its TTL cannot be removed without removing that one
// (not needed for any limit) or leaving a hole, so it legitimately stays and
// is not counted as a violation.  With non-decreasing last-write times this is
// the same as "some segment of st is expired".
func c09Violated(st []c09Seg, lim c09Limits) []string {
	var v []string
	if len(st) > 0 && c09Expired(st[0], lim) {
		v = append(v, "age")
	}
	var msgs, bytes int64
	for _, s := range st {
		msgs += s.Count
		bytes += s.Bytes
	}
	if lim.Msgs > 0 && msgs > lim.Msgs {
		v = append(v, "msgs")
	}
	if lim.Bytes > 0 && bytes > lim.Bytes {
		v = append(v, "bytes")
	}
	return v
}

// c09AgeKeep: index of the first segment the age limit ALONE keeps (the first
// segment from the oldest end that is not expired, or the newest).
func c09AgeKeep(st []c09Seg, lim c09Limits) int {
	k := 0
	for k < len(st)-1 && c09Expired(st[k], lim) {
		k++
	}
	return k
}

// c09NonMonotonic: some segment was last written before its predecessor.
func c09NonMonotonic(st []c09Seg) bool {
	last, have := int64(0), false
	for _, s := range st {
		if s.Count == 0 {
			continue
		}
		if have && s.LastTS < last {
			return true
		}
		last, have = s.LastTS, true
	}
	return false
}

func c09AgePattern(st []c09Seg, lim c09Limits) string {
	if lim.Age == 0 {
		return "-"
	}
	b := make([]byte, len(st))
	for i, s := range st {
		b[i] = 'n'
		if c09Expired(s, lim) {
			b[i] = 'E'
		}
	}
	return string(b)
}

// c09ExpectedKeep: index of the first segment a correct cleaner keeps = the
// first index from the oldest end at which the remaining log violates no limit
// (used in witnesses and for coverage classes; the verdict uses the necessity
// and sufficiency predicates directly).
func c09ExpectedKeep(st []c09Seg, lim c09Limits) int {
	for k := 0; k < len(st)-1; k++ {
		if len(c09Violated(st[k:], lim)) == 0 {
			return k
		}
	}
	return len(st) - 1
}

type c09Env struct {
	rep   *kit.Report
	tag   string
	dir   string
	opts  Options
	lim   c09Limits
	log   *commitLog
	orig  map[int64]vfRec
	next  int64
	ts    int64
	hw    int64
	trace []string

	cleans, removedSegs, readsChecked int

	// ageExposed: the last cleanAndCheck reported (once) that the count / size
	// limits exposed an expired segment at the oldest end which the same Clean
	// did not remove; a following Clean removing it is the same finding.
	ageExposed bool

	// softAcct: a segment whose MessageCount / Position / lastWriteTime differs
	// from its file is reported, but the case goes on so that the clean itself
	// is judged against the files too (history unit).
	softAcct bool
	// deferScan: scan() does not report what it finds but leaves it in
	// scanIssue (fingerprint + text); the periodic unit reports it only when
	// it persists over several observations with no cleaner pass in between
	deferScan bool
	scanIssue [2]string
}

func c09Opts(tag string, maxSeg int64, lim c09Limits) Options {
	return c09OptsAt(vfTempDir(tag), tag, maxSeg, lim)
}

func c09OptsAt(dir, tag string, maxSeg int64, lim c09Limits) Options {
	o := vfOpts(dir, maxSeg)
	o.Name = tag
	o.MaxLogAge = lim.Age
	o.MaxLogMessages = lim.Msgs
	o.MaxLogBytes = lim.Bytes
	return o
}

func newC09Env(rep *kit.Report, tag string, maxSeg int64, lim c09Limits) (*c09Env, error) {
	opts := c09Opts(tag, maxSeg, lim)
	e := &c09Env{rep: rep, tag: tag, dir: opts.Path, opts: opts, lim: lim, orig: map[int64]vfRec{}, hw: -1, ts: 1000}
	l, err := vfOpen(opts)
	if err != nil {
		return nil, err
	}
	e.log = l
	return e, nil
}

func (e *c09Env) close() {
	if e.log != nil {
		e.log.Close()
		e.log = nil
	}
	os.RemoveAll(e.dir)
}

func (e *c09Env) replay(extra map[string]any) map[string]any {
	m := map[string]any{
		"unit":            e.tag,
		"maxSegmentBytes": e.opts.MaxSegmentBytes,
		"limits":          e.lim.String(),
		"fixed_now":       c09Now,
		"hw":              e.hw,
		"steps":           strings.Join(e.trace, " "),
	}
	for k, v := range extra {
		m[k] = v
	}
	return m
}

func (e *c09Env) fail(fp, what string, extra map[string]any) {
	e.rep.Violation(fp, what, e.replay(extra))
}

// c09Rec is the content of offset o: nil key, value of vlen bytes, timestamp ts.
func c09Rec(o int64, vlen int, ts int64) vfRec {
	v := []byte(fmt.Sprintf("v%05d", o))
	for len(v) < vlen {
		v = append(v, '.')
	}
	return vfRec{Off: o, Val: v, TS: ts, Epoch: 1 + uint64(o/23)}
}

// c09RecBytes is the on-disk size of a c09Rec with a value of vlen bytes
// (28-byte header + crc/magic/attrs + nil key + value + header count).
func c09RecBytes(vlen int) int64 {
	if vlen < 6 {
		vlen = 6
	}
	return 28 + 4 + 2 + 4 + 4 + int64(vlen) + 2
}

// appendBatch appends len(ts) messages in ONE Append call (they land in one
// segment; a roll can only happen before the batch).  ts are the harness-chosen
// message timestamps (non-decreasing within a batch; from one batch to the next
// they may go backwards: a new leader with a slower clock).  A segment's last
// write time is the timestamp of the last message appended to it.
func (e *c09Env) appendBatch(vlen int, ts []int64) bool {
	n := len(ts)
	msgs := make([]*Message, n)
	recs := make([]vfRec, n)
	for i := range msgs {
		recs[i] = c09Rec(e.next+int64(i), vlen, ts[i])
		msgs[i] = recs[i].msg()
	}
	offs, err := e.log.Append(msgs)
	if err != nil {
		e.fail("C09:append-error", fmt.Sprintf("Append failed: %v", err), nil)
		return false
	}
	if len(offs) != n || offs[0] != e.next {
		e.fail("C09:append-offset", fmt.Sprintf("Append returned %v, expected %d offsets from %d", offs, n, e.next), nil)
		return false
	}
	for _, r := range recs {
		e.orig[r.Off] = r
	}
	e.next += int64(n)
	e.ts = ts[n-1]
	e.trace = append(e.trace, fmt.Sprintf("A%dx%dB@%d", n, vlen, e.ts))
	return true
}

func (e *c09Env) setHW(hw int64) {
	e.log.SetHighWatermark(hw)
	if hw > e.hw {
		e.hw = hw
	}
	e.trace = append(e.trace, fmt.Sprintf("HW=%d", hw))
}

// scan parses the segment files and cross-checks them with what the log and
// its segment objects report (the quantities the limits are measured in).
func (e *c09Env) scanFail(fp, what string, w map[string]any) {
	if e.deferScan {
		e.scanIssue = [2]string{fp, what}
		return
	}
	e.fail(fp, what, w)
}

func (e *c09Env) scan(stage string) ([]c09Seg, bool) {
	e.scanIssue = [2]string{}
	raw, err := vfScanDir(e.dir)
	if err != nil {
		e.scanFail("C09:raw-scan", fmt.Sprintf("%s: %v", stage, err), nil)
		return nil, false
	}
	st := make([]c09Seg, len(raw))
	for i, r := range raw {
		s := c09Seg{Base: r.Base, Count: int64(len(r.Recs)), Bytes: r.Bytes, FirstOff: -1, LastOff: -1, Recs: r.Recs}
		if n := len(r.Recs); n > 0 {
			s.LastTS, s.FirstOff, s.LastOff = r.Recs[n-1].TS, r.Recs[0].Off, r.Recs[n-1].Off
		}
		if r.Trailing != 0 {
			e.scanFail("C09:raw-scan", fmt.Sprintf("%s: segment %s has %d trailing bytes", stage, r.File, r.Trailing), nil)
			return nil, false
		}
		st[i] = s
	}
	segs := e.log.Segments()
	if len(segs) != len(st) {
		e.scanFail("C09:files-vs-segments", fmt.Sprintf("%s: the log lists segments %v, the directory holds .log files %v", stage, c09SegBases(segs), c09Bases(st)), nil)
		return st, false
	}
	for i, s := range segs {
		if s.BaseOffset != st[i].Base {
			e.scanFail("C09:files-vs-segments", fmt.Sprintf("%s: the log lists segments %v, the directory holds .log files %v", stage, c09SegBases(segs), c09Bases(st)), nil)
			return st, false
		}
		if s.MessageCount() != st[i].Count || s.Position() != st[i].Bytes || (st[i].Count > 0 && s.lastWriteTime != st[i].LastTS) {
			e.scanFail("C09:segment-accounting", fmt.Sprintf("%s: segment base %d reports count=%d bytes=%d lastWrite=%d, its file holds %v",
				stage, s.BaseOffset, s.MessageCount(), s.Position(), s.lastWriteTime, st[i]), nil)
			if !e.softAcct {
				return st, false
			}
			// history unit: go on and let the clean be judged on the files as well
			break
		}
	}
	return st, true
}

func c09SegBases(segs []*segment) []int64 {
	b := make([]int64, len(segs))
	for i, s := range segs {
		b[i] = s.BaseOffset
	}
	return b
}

// c09SuffixIndex returns k such that post == pre[k:], or -1.
func c09SuffixIndex(pre, post []int64) int {
	k := len(pre) - len(post)
	if k < 0 {
		return -1
	}
	for i := range post {
		if pre[k+i] != post[i] {
			return -1
		}
	}
	return k
}

// cleanAndCheck runs one real Clean() and applies the whole oracle.  It
// returns the number of removed segments.
func (e *c09Env) cleanAndCheck(rng *kit.RNG, full bool) (removed int, ok bool) {
	pre, ok := e.scan("before Clean")
	if !ok {
		return 0, false
	}
	e.trace = append(e.trace, fmt.Sprintf("Clean%v", pre))
	if err := e.log.Clean(); err != nil {
		e.fail("C09:clean-error", fmt.Sprintf("Clean failed: %v", err), nil)
		return 0, false
	}
	e.cleans++
	return e.judgeClean(rng, pre, full)
}

// judgeClean applies the whole oracle to the state the log is in now, given
// the raw parse pre of the segment files as they were before the retention
// pass(es) being judged (cleanAndCheck: the one Clean it just ran; the faulted
// unit: an interrupted pass plus the pass that completed it).
func (e *c09Env) judgeClean(rng *kit.RNG, pre []c09Seg, full bool) (removed int, ok bool) {
	post, ok := e.scan("after Clean")
	if !ok {
		return 0, false
	}
	want := c09ExpectedKeep(pre, e.lim)
	wit := map[string]any{"segments_before": fmt.Sprint(pre), "segments_after": fmt.Sprint(c09Bases(post)), "documented_semantics_keep_from_index": want}
	// removed = a prefix of whole segments, never the newest; survivors = contiguous suffix
	if len(post) == 0 || post[len(post)-1].Base != pre[len(pre)-1].Base {
		e.fail("C09:newest-removed", fmt.Sprintf("the newest segment (base %d) is gone after Clean; before %v after %v", pre[len(pre)-1].Base, c09Bases(pre), c09Bases(post)), wit)
		return 0, false
	}
	k := c09SuffixIndex(c09Bases(pre), c09Bases(post))
	if k < 0 {
		e.fail("C09:not-a-suffix", fmt.Sprintf("surviving segments %v are not a contiguous suffix of %v", c09Bases(post), c09Bases(pre)), wit)
		return 0, false
	}
	e.removedSegs += k
	// whole segments: survivors are untouched, removed ones leave no .log behind (scan compared files and list)
	for i := range post {
		p := pre[k+i]
		if post[i].Count != p.Count || post[i].Bytes != p.Bytes {
			e.fail("C09:survivor-changed", fmt.Sprintf("surviving segment changed: before %v after %v", p, post[i]), wit)
			return k, false
		}
		for j := range p.Recs {
			if !vfSameRec(p.Recs[j], post[i].Recs[j]) {
				e.fail("C09:survivor-changed", fmt.Sprintf("surviving segment base %d: message changed from %v to %v", p.Base, p.Recs[j], post[i].Recs[j]), wit)
				return k, false
			}
		}
	}
	wit["expired_flags_before_E_is_older_than_cutoff"] = c09AgePattern(pre, e.lim)
	if c09NonMonotonic(pre) {
		e.rep.Count("cleans_nonmonotonic_last_write_times", 1)
	}
	if e.lim.Age > 0 {
		for i := want + 1; i < len(pre); i++ {
			if c09Expired(pre[i], e.lim) {
				// an expired segment sits behind a segment that must be kept
				e.rep.Count("cleans_expired_segment_behind_kept_one", 1)
				if i == len(pre)-1 {
					e.rep.Count("cleans_expired_newest_behind_kept_one", 1)
				}
				break
			}
		}
	}
	// NECESSITY: no removed segment could have been kept, i.e. for EVERY removed
	// segment j the log from j on violates a configured limit (age: segment j
	// itself is expired).  With non-monotonic last-write times this is more than
	// the statement about the newest removed segment.
	for j := k - 1; j >= 0; j-- {
		if v := c09Violated(pre[j:], e.lim); len(v) == 0 {
			fp := "C09:removed-more-than-needed:" + e.lim.kinds()
			if j < k-1 {
				fp += ":unexpired-before-expired"
			}
			e.fail(fp,
				fmt.Sprintf("segment base %d (index %d) was removed although the log from it on satisfies every configured limit (%s; expired flags %s): kept from index %d, documented semantics keep from index %d; before %v",
					pre[j].Base, j, e.lim, c09AgePattern(pre, e.lim), k, want, pre), wit)
			break
		}
	}
	// SUFFICIENCY: every configured limit holds on the survivors unless only the
	// newest is left (age: the oldest survivor is not expired)
	e.ageExposed = false
	if len(post) > 1 {
		if v := c09Violated(post, e.lim); len(v) > 0 {
			fp := "C09:limit-not-enforced:" + strings.Join(v, "+")
			what := ""
			if len(v) == 1 && v[0] == "age" && k > c09AgeKeep(pre, e.lim) {
				// the age limit alone stops at an unexpired segment further
				// up; the count / size limits removed that one, which puts an
				// expired segment at the oldest end
				fp += ":expired-segment-exposed-by-count-or-size-limit"
				what = " (the age limit alone keeps from index " + fmt.Sprint(c09AgeKeep(pre, e.lim)) + "; the count/size limits removed further segments and exposed an expired one at the oldest end, which this Clean left in place)"
				e.ageExposed = true
			}
			e.fail(fp,
				fmt.Sprintf("after Clean the log still violates %v (%s; expired flags before %s) with %d segments left: %v; documented semantics keep from index %d of %v%s",
					v, e.lim, c09AgePattern(pre, e.lim), len(post), post, want, pre, what), wit)
		}
	}
	// OldestOffset / NewestOffset
	wantOldest := post[0].FirstOff
	if got := e.log.OldestOffset(); got != wantOldest {
		e.fail("C09:oldest-offset", fmt.Sprintf("OldestOffset=%d after Clean, first surviving offset is %d", got, wantOldest), wit)
	}
	if got := e.log.NewestOffset(); got != e.next-1 {
		e.fail("C09:newest-offset", fmt.Sprintf("NewestOffset=%d after Clean, last appended offset is %d", got, e.next-1), wit)
	}
	if full {
		e.checkReads(rng, pre, post, k, wit)
	}
	return k, true
}

// checkReads: reading from 0, from the new oldest offset, from inside the
// removed range and from inside the suffix returns exactly the suffix.
func (e *c09Env) checkReads(rng *kit.RNG, pre, post []c09Seg, k int, wit map[string]any) {
	var suffix []vfRec
	for _, s := range post {
		suffix = append(suffix, s.Recs...)
	}
	for _, r := range suffix {
		if o, ok := e.orig[r.Off]; !ok || !vfSameRec(o, r) {
			e.fail("C09:survivor-changed", fmt.Sprintf("segment files hold %v, appended was %v", r, o), wit)
			return
		}
	}
	if len(suffix) == 0 {
		return
	}
	oldest := suffix[0].Off
	starts := []int64{0, oldest}
	if oldest > 0 {
		starts = append(starts, int64(rng.Intn(int(oldest))), oldest-1)
	}
	starts = append(starts, suffix[rng.Intn(len(suffix))].Off)
	bound := len(suffix) + 8
	hwReadable := e.hw >= oldest // the HW message itself is retained (nothing above the oldest is ever removed)
	for _, s := range starts {
		e.readsChecked++
		got, oerr, err := vfReadFrom(e.log, s, true, bound)
		var want []int64
		for _, r := range suffix {
			if r.Off >= s {
				want = append(want, r.Off)
			}
		}
		if err != nil || oerr != nil || !c09OffsEq(got, want) || !c09SameAll(got, e.orig) {
			e.fail("C09:read-suffix:uncommitted", fmt.Sprintf("uncommitted reader from %d after Clean: open=%v err=%v got %v want %v", s, oerr, err, c09Offs(got), want), wit)
			return
		}
		if hwReadable {
			e.readsChecked++
			got, oerr, err := vfReadFrom(e.log, s, false, bound)
			var wantc []int64
			if s <= e.hw {
				for _, o := range want {
					if o <= e.hw {
						wantc = append(wantc, o)
					}
				}
			}
			if err != nil || oerr != nil || !c09OffsEq(got, wantc) || !c09SameAll(got, e.orig) {
				e.fail("C09:read-suffix:committed", fmt.Sprintf("committed reader from %d (hw=%d) after Clean: open=%v err=%v got %v want %v", s, e.hw, oerr, err, c09Offs(got), wantc), wit)
				return
			}
		}
	}
	// backwards from the newest offset: the suffix in descending order
	e.readsChecked++
	got, oerr, err := vfReverseFrom(e.log, e.next-1, true, bound)
	want := make([]int64, len(suffix))
	for i, r := range suffix {
		want[len(suffix)-1-i] = r.Off
	}
	if err != nil || oerr != nil || !c09OffsEq(got, want) {
		e.fail("C09:read-suffix:reverse", fmt.Sprintf("reverse reader from %d after Clean: open=%v err=%v got %v want %v", e.next-1, oerr, err, c09Offs(got), want), wit)
	}
}

// noLeftovers: no file of a removed segment (.log or .index) is left behind.
func (e *c09Env) leftovers(post []c09Seg) []string {
	keep := map[string]bool{}
	for _, s := range post {
		keep[fmt.Sprintf("%020d", s.Base)] = true
	}
	ents, _ := os.ReadDir(e.dir)
	var left []string
	for _, en := range ents {
		n := en.Name()
		if !strings.HasSuffix(n, ".log") && !strings.HasSuffix(n, ".index") {
			continue
		}
		if !keep[strings.TrimSuffix(n, filepath.Ext(n))] {
			left = append(left, n)
		}
	}
	return left
}

func (e *c09Env) finish(sig string, nontrivial bool) {
	r := e.rep
	r.Eval()
	r.Count("cleans", int64(e.cleans))
	r.Count("segments_removed", int64(e.removedSegs))
	r.Count("reader_starts_checked", int64(e.readsChecked))
	if nontrivial {
		r.Nontrivial(sig)
	}
}

func c09Offs(recs []vfRec) []int64 {
	o := make([]int64, len(recs))
	for i, r := range recs {
		o[i] = r.Off
	}
	return o
}

func c09OffsEq(a []vfRec, b []int64) bool {
	if len(a) != len(b) {
		return false
	}
	for i := range a {
		if a[i].Off != b[i] {
			return false
		}
	}
	return true
}

func c09SameAll(got []vfRec, orig map[int64]vfRec) bool {
	for _, r := range got {
		if o, ok := orig[r.Off]; !ok || !vfSameRec(r, o) {
			return false
		}
	}
	return true
}

func c09MsgBytes(r vfRec) []byte {
	b, err := encode(r.msg())
	if err != nil {
		panic(err)
	}
	return b
}
