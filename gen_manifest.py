#!/usr/bin/env python3
"""Regenerates MANIFEST.json from units.py + manifest_meta.py (kept valid at all times)."""
import json, os, subprocess, sys
V = os.path.dirname(os.path.abspath(__file__))
sys.path.insert(0, V)
from units import UNITS, LEVELS, META
from manifest_meta import NOT_APPLICABLE, HOOK_COMMITS, READY

props = [json.loads(l) for l in open(os.path.join(V, "properties.jsonl")) if l.strip()]
checks = []
for p in props:
    pid = p["id"]
    if pid not in UNITS or pid not in META or pid not in READY:
        continue
    m = META[pid]
    checks.append({
        "property_id": pid,
        "quick_cmd": "./check %s --tier quick" % pid,
        "thorough_cmd": "./check %s --tier thorough" % pid,
        "evidence_file": "/verif/evidence/%s.json" % pid,
        "replay_cmd_template": "./check %s --replay {path}" % pid,
        "engine": "check",
        "level_claimed": {"category": LEVELS.get(pid, "exploration"), "text": m["text"], "design_ref": "DESIGN.md section 2, " + pid},
        "level_note": m["note"],
        "technique": m["technique"],
    })
claimed = {c["property_id"] for c in checks}
na = [x for x in NOT_APPLICABLE if x["property_id"] not in claimed]
for p in props:
    if p["id"] not in claimed and p["id"] not in {x["property_id"] for x in na}:
        na.append({"property_id": p["id"], "reason": "check not built yet in this session (planned in DESIGN.md); not claimed until its monitor runs clean on the unchanged tree"})
man = {
    "version": 1,
    "setup_cmd": "./check setup",
    "hooks": {
        "guard": "verif",
        "enable": "go test -c -tags verif -race -overlay <harness files of /verif/harness> (done by ./check; hooks are `if verifhook.Enabled {...}` blocks compiled out without the tag)",
        "baseline_off_cmd": "cd /repo && GOFLAGS=-mod=mod GOPROXY=off go test -json -vet=off -count=1 -timeout 25m ./...",
        "source_commits": HOOK_COMMITS,
        "add_only": True,
    },
    "engines": [{"name": "check", "path": "/verif/check", "serves_properties": sorted(claimed),
                 "kind_free_text": "python driver: builds the repository packages from the working tree with -tags verif -race and the /verif/harness files overlaid, runs the harness units (workload + monitors in Go), collects race-detector reports and crashes, applies known_findings.json, writes evidence"}],
    "checks": checks,
    "not_applicable": na,
    "notes": "Technique family: runtime monitoring and sanitizers. Every check executes the real code of /repo's working tree under generated workloads with monitors (reference models, invariant assertions, history checkers, race detector). See DESIGN.md.",
}
json.dump(man, open(os.path.join(V, "MANIFEST.json"), "w"), indent=1)
print("MANIFEST.json: %d checks, %d not_applicable" % (len(checks), len(na)))
