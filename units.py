"""Which harness units decide which property.  Read by ./check and gen_manifest.py.

One fragment per property: units.d/<ID>.json =
  {"units": [unit...], "level": "exploration"|"fault_enumeration", "meta": {"technique","text","note"}}
unit keys: name, pkg (package dir in the repository), test (Go test function),
race (default true), porcupine (needs the porcupine module: -modfile build),
tiers (default both), timeout_s {quick, thorough}, env {...}.
"""
import glob, json, os

_D = os.path.join(os.path.dirname(os.path.abspath(__file__)), "units.d")
UNITS, LEVELS, META, DEPS = {}, {}, {}, {}
for _p in sorted(glob.glob(os.path.join(_D, "*.json"))):
    _j = json.load(open(_p))
    _id = os.path.basename(_p)[:-5]
    UNITS[_id] = _j["units"]
    if _j.get("level"):
        LEVELS[_id] = _j["level"]
    if _j.get("meta"):
        META[_id] = _j["meta"]
    if _j.get("deps"):
        DEPS[_id] = _j["deps"]
