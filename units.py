"""Which harness units decide which property.  Read by ./check.

unit keys: name, pkg (package dir in the repository), test (Go test function),
race (default True), porcupine (needs the porcupine module: -modfile build),
tiers (default both), timeout_s {quick, thorough}, env {...}.
"""

CL = "server/commitlog"
SRV = "server"

UNITS = {
    "C01": [
        dict(name="programs", pkg=CL, test="TestVerifC01Programs", timeout_s=dict(quick=600, thorough=3000)),
        dict(name="enum", pkg=CL, test="TestVerifC01Enum", timeout_s=dict(quick=600, thorough=3000)),
        dict(name="concurrent", pkg=CL, test="TestVerifC01Concurrent", timeout_s=dict(quick=600, thorough=3000)),
    ],
}

# evidence "level" per property (default: exploration)
LEVELS = {
    "C05": "fault_enumeration",
}
