"""Per-property manifest texts."""
HOOK_COMMITS = ["062389c"]
NOT_APPLICABLE = []
META = {
 "C01": dict(
  technique="runtime monitoring: reference-model oracle over seeded + small-scope-enumerated operation programs on the real commit log, concurrent run under the Go race detector",
  text="Held on the executions explored: thousands of seeded and exhaustively enumerated short operation programs (append batches, replicated message sets, truncations at every position class, reopen, 7 segment sizes) are run on the real commitLog; after every step everything readable (every start offset, committed and uncommitted, plus a raw parse of the segment files) is compared with an independent model. A concurrent appender/roller/readers run under -race covers the segment-roll CAS. Exploration, not proof: inputs outside the generated space are not covered.",
  note="Trusted: the reference model in harness/commitlog/c01_test.go and the independent decoder in common_test.go; process-level behaviour of the OS file system. Nil header values and truncation below the HW are excluded (unreachable through the server)."),
}
