"""Manifest data that is not per-property (per-property texts live in units.d/<ID>.json)."""
HOOK_COMMITS = ["062389c", "c056251", "963a2ee", "bac08df", "0410a56"]
NOT_APPLICABLE = []

# Properties whose checks have been reviewed by the lead and run clean on the
# unchanged tree; only these are claimed in MANIFEST.json.
READY = ["C01", "C02", "C03", "C04", "C05", "C06", "C07", "C08", "C09", "C10", "C11", "C12", "C13", "C14", "C15", "C16", "C17", "C18", "C19"]
