#!/usr/bin/env python3
"""tools/update_design_table.py — replaces the seeded-change table at the end of DESIGN.md §7 by the output of gen_catch_table.py."""
import os, subprocess
root = os.path.dirname(os.path.dirname(os.path.abspath(__file__)))
p = os.path.join(root, "DESIGN.md")
s = open(p).read()
i = s.index("| seeded change | needs |")
tab = subprocess.run(["python3", os.path.join(root, "tools", "gen_catch_table.py")], stdout=subprocess.PIPE, text=True, check=True).stdout
open(p, "w").write(s[:i] + tab.rstrip("\n") + "\n")
