#!/usr/bin/env python3
"""tools/gen_catch_table.py  — prints the markdown rows of DESIGN.md §7 from seeded/*/meta.json (+ seeded/REMARKS.json)."""
import json, glob, os, re
root = os.path.dirname(os.path.dirname(os.path.abspath(__file__)))
remarks = json.load(open(os.path.join(root, "seeded", "REMARKS.json"))) if os.path.exists(os.path.join(root, "seeded", "REMARKS.json")) else {}
def short(s, n):
    s = re.sub(r"\s+", " ", s or "").replace("|", "\\|")
    return s if len(s) <= n else s[:n - 1].rsplit(" ", 1)[0] + " …"
rows = []
for d in sorted(glob.glob(os.path.join(root, "seeded", "C*-*"))):
    mid = os.path.basename(d)
    m = json.load(open(os.path.join(d, "meta.json")))
    c = m.get("confirmed_by_lead", {})
    fps = c.get("check_fingerprints", [])
    caught = c.get("check_rc") == 1 and fps
    r = remarks.get(mid, {})
    fp = ", ".join("`%s`" % f.replace("|", "\\|") for f in fps[:3]) if caught else "**not caught**"
    rows.append("| %s %s | %s | %s | %s |" % (mid, short(r.get("what") or m.get("summary"), 170), short(r.get("needs") or m.get("needs"), 170), fp, r.get("remark", "caught as built" if caught else "")))
print("| seeded change | needs | caught by (fingerprints) | remark |\n|---|---|---|---|")
print("\n".join(rows))
