#!/bin/bash
# tools/sweep.sh [tier] [seed] : runs every claimed check once, sequentially, prints one line each.
tier=${1:-quick}; seed=${2:-1}
cd /verif
for p in $(python3 -c "from manifest_meta import READY; print(' '.join(READY))"); do
  t0=$(date +%s)
  out=$(VERIF_SEED=$seed ./check $p --tier $tier ${NOEV:+--no-evidence} 2>&1)
  rc=$?
  echo "$p rc=$rc $(( $(date +%s)-t0 ))s :: $(echo "$out" | grep -E '^(OK|FAIL|BROKEN)' | tail -1 | cut -c1-150)"
  echo "$out" | grep -E 'VIOLATION|KNOWN-FINDING|INCONCLUSIVE|fingerprint=' | cut -c1-260
done
