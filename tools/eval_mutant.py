#!/usr/bin/env python3
"""tools/eval_mutant.py <mutant-out-dir> <PROP> [--keep] [--tier quick] [--seed N]
Confirms a seeded change (patch.diff + demo + meta.json) in a scratch worktree of /repo HEAD and runs the
property's check against it (VERIF_REPO).  Prints a JSON summary; copies the kept mutant to /verif/seeded/<id>/."""
import json, os, re, shutil, subprocess, sys, glob
out = os.path.abspath(sys.argv[1]); prop = sys.argv[2]
keep = "--keep" in sys.argv
tier = sys.argv[sys.argv.index("--tier")+1] if "--tier" in sys.argv else "quick"
seed = sys.argv[sys.argv.index("--seed")+1] if "--seed" in sys.argv else "1"
name = os.path.basename(out)
wt = "/tmp/mv-" + name
env = dict(os.environ, GOFLAGS="-mod=mod", GOPROXY="off")
def sh(cmd, cwd=None, timeout=1500, e=None):
    p = subprocess.run(cmd, shell=True, cwd=cwd, env=e or env, stdout=subprocess.PIPE, stderr=subprocess.STDOUT, text=True, timeout=timeout)
    return p.returncode, p.stdout
subprocess.run("git -C /repo worktree remove --force %s 2>/dev/null; git -C /repo worktree add --detach %s HEAD -q" % (wt, wt), shell=True)
meta = json.load(open(os.path.join(out, "meta.json")))
demo = meta["demo"]
# keep only the `go test ...` / `go run ...` part of the command (agents prefix cp/cd/env)
_m = re.search(r"(go (?:test|run)\b[^&;|]*)", demo)
if _m:
    demo = _m.group(1).strip()
    demo = re.split(r"\s{2,}|\s\(", demo)[0].strip().rstrip("'\"`")
if "./server/" in demo and "server/commitlog" not in demo and "server/protocol" not in demo and "server/encryption" not in demo:
    demo = "unshare -n sh -c 'ip link set lo up && %s'" % demo.replace("'", '"')
res = {"mutant": name, "property": prop, "summary": meta.get("summary"), "needs": meta.get("needs"), "demo": demo}
# place demo files: prefer the per-file first-line comment "Place in <dir>" + "-run <name>"
demos = [f for f in os.listdir(out) if f.endswith(".go")]
placed = []   # (file, pkgdir)
cmds = []
perfile = True
for f in demos:
    first = open(os.path.join(out, f)).readline()
    mp = re.search(r"[Pp]lace (?:this file )?in\s+`?(?:<tree>/)?\.?/?([\w/]+?)/?`?[\s(,:]", first)
    mr = re.search(r"-run\s+'?\"?([\w^$|.*()]+)", first)
    rootpkg = re.search(r"[Pp]lace in \. ;", first)
    if not ((mp or rootpkg) and mr):
        perfile = False
        break
    d = "." if rootpkg else mp.group(1)
    placed.append((f, "./" + d))
    c = "go test -vet=off -count=1 -timeout 8m -run '%s' ./%s/" % (mr.group(1), d)
    if d == ".":
        c = "go test -vet=off -count=1 -timeout 8m -run '%s' ." % mr.group(1)
    if d in ("server", "."):
        c = "unshare -n sh -c \"ip link set lo up && %s\"" % c
    cmds.append(c)
if perfile and demos:
    demo = " && ".join(cmds)
    res["demo"] = demo
else:
    m = re.search(r"(\./[\w/\.]+)\s*/?\s*$", demo.strip()) or re.search(r"(\./server[\w/]*)", demo)
    pkg = m.group(1).rstrip("/") if m else "./server"
    placed = [(f, pkg) for f in demos]
for f, pkg in placed:
    shutil.copy(os.path.join(out, f), os.path.join(wt, pkg, f))
checkonly = "--check-only" in sys.argv
prevmeta = None
if checkonly:
    prevmeta = json.load(open("/verif/seeded/" + name.replace("out-", "") + "/meta.json")).get("confirmed_by_lead", {})
    rc0, o0 = prevmeta.get("demo_on_unchanged_rc"), ""
else:
    rc0, o0 = sh(demo, cwd=wt)
res["demo_on_unchanged_rc"] = rc0
rc, o = sh("git apply %s/patch.diff" % out, cwd=wt)
res["patch_applies"] = rc == 0
if rc != 0:
    res["apply_error"] = o[-500:]
rcb, ob = sh("go build ./... && go build -tags verif ./...", cwd=wt)
res["builds"] = rcb == 0
if checkonly:
    rc1, o1 = prevmeta.get("demo_with_change_rc"), ""
else:
    rc1, o1 = sh(demo, cwd=wt)
res["demo_with_change_rc"] = rc1
res["demo_tail"] = o1[-600:]
# remove demo files before running the check (they are not part of the change)
for f, pkg in placed:
    os.unlink(os.path.join(wt, pkg, f))
if "--suite" in sys.argv:
    # the repository's own tests of every package the change touches, unedited, with the change applied
    pk = sorted({os.path.dirname(l[6:].strip()) for l in open(os.path.join(out, "patch.diff")) if l.startswith("+++ b/") and l.strip().endswith(".go")})
    srcs = []
    for d in pk:
        c = "go test -vet=off -count=1 -timeout 25m ./%s/" % d
        if d == "":
            c = "go test -vet=off -count=1 -timeout 25m ."
        if d in ("server", ""):
            c = "unshare -n sh -c \"ip link set lo up && %s\"" % c
        rcs, os_ = sh(c, cwd=wt, timeout=2400)
        fails = sorted(set(re.findall(r"^--- FAIL: (\S+)", os_, re.M)))
        if rcs != 0 and fails and set(f.split("/")[0] for f in fails) <= {"TestPartitionLeaderFailover", "TestTimeoutFuture_ErrorSuccess"}:
            rcs = 0   # the two tests BASELINE.json lists as flaky on the unchanged tree
        if rcs != 0 and fails:
            # tests that fail under machine load on the unchanged tree as well: re-run each failed test alone
            again = []
            for tname in sorted(set(f.split("/")[0] for f in fails)):
                c2 = "go test -vet=off -count=1 -timeout 10m -run '^%s$' ./%s/" % (tname, d)
                if d == "server":
                    c2 = "unshare -n sh -c \"ip link set lo up && %s\"" % c2
                ok = False
                for _ in range(3):
                    r2, _o = sh(c2, cwd=wt, timeout=900)
                    if r2 == 0:
                        ok = True
                        break
                if not ok:
                    again.append(tname)
            if not again:
                rcs = 0
                fails = [f + " (passed when re-run alone)" for f in fails]
        srcs.append({"pkg": d, "rc": rcs, "failed": fails[:10], "tail": "" if rcs == 0 else os_[-400:]})
    res["suite"] = srcs
e2 = dict(env, VERIF_REPO=wt, VERIF_SEED=seed)
if "--demo-only" in sys.argv:
    prev = json.load(open("/verif/seeded/" + name.replace("out-", "") + "/meta.json"))["confirmed_by_lead"]
    rcc, oc = prev["check_rc"], "\n".join("fingerprint=" + f for f in prev["check_fingerprints"])
else:
    rcc, oc = sh("./check %s --tier %s --no-evidence" % (prop, tier), cwd="/verif", e=e2, timeout=7200)
res["check_rc"] = rcc
res["check_fingerprints"] = [l.strip().split(" ")[0].replace("fingerprint=", "") for l in oc.split("\n") if "fingerprint=" in l][:12]
res["check_tail"] = oc[-700:]
print(json.dumps(res, indent=1))
if keep:
    dst = "/verif/seeded/" + name.replace("out-", "")
    os.makedirs(dst, exist_ok=True)
    for f in os.listdir(out):
        if f.endswith(".log"):
            continue
        shutil.copy(os.path.join(out, f), dst)
    meta["confirmed_by_lead"] = {"demo_on_unchanged_rc": rc0, "demo_with_change_rc": rc1, "builds": rcb == 0,
        "check_cmd": "VERIF_REPO=<worktree with patch> VERIF_SEED=%s ./check %s --tier %s" % (seed, prop, tier), "check_rc": rcc, "check_fingerprints": res["check_fingerprints"]}
    if checkonly and prevmeta and "existing_tests_with_change" in prevmeta:
        meta["confirmed_by_lead"]["existing_tests_with_change"] = prevmeta["existing_tests_with_change"]
    if checkonly and prevmeta and prevmeta.get("check_rc") == 0:
        meta["confirmed_by_lead"]["missed_by_the_check_as_it_stood"] = True
    if "suite" in res:
        meta["confirmed_by_lead"]["existing_tests_with_change"] = [{k: x[k] for k in ("pkg", "rc", "failed")} for x in res["suite"]]
    json.dump(meta, open(os.path.join(dst, "meta.json"), "w"), indent=1)
subprocess.run("git -C /repo worktree remove --force %s" % wt, shell=True)
